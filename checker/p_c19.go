package main

import (
	"fmt"
	"go/token"
	"strings"

	"golang.org/x/tools/go/ssa"
)

func init() { register("C19", propC19) }

func propC19(c *Ctx) propInfo {
	const R = "E8.mustcheck"
	cp := c.mustFn(R, "tonconnect", "Server.CheckProof")
	if cp != nil {
		// result 0 is the bool verdict; success = not definitely false
		c.mustDominate(R, cp, 0, []requiredCheck{
			{name: "checkPayload(payload)", src: paramCallResult("checkPayload"), kind: "bool"},
			{name: "checkDomain(domain)", src: paramCallResult("checkDomain"), kind: "bool"},
			{name: "signatureVerify(pubKey, message, signature)", src: callResult(modPath+"/tonconnect.signatureVerify", "crypto/ed25519.Verify"), kind: "bool"},
		}, nil, "")
		// lifetime comparison: a branch on time.Since(...) > duration; passing edge = false
		c.mustDominate(R, cp, 0, []requiredCheck{
			{name: "proof lifetime comparison", src: func(v ssa.Value) bool {
				b, ok := v.(*ssa.BinOp)
				if !ok {
					return false
				}
				return (derivesFrom(b.X, callResult("time.Since"), false) && derivesFrom(b.Y, fieldLoad("lifeTimeProof"), false)) ||
					((b.Op == token.LSS || b.Op == token.LEQ) && derivesFrom(b.Y, callResult("time.Since"), false) && derivesFrom(b.X, fieldLoad("lifeTimeProof"), false))
			}, kind: "notbool"},
		}, nil, "")
		// state-init path: the call extracting a key from the state-init is dominated by the
		// passing edge of compareStateInitWithAddress
		// the comparison: the helper, or - inlined - bytes.Equal of the state-init's cell hash with the account's address
		inlineCmp := func(v ssa.Value) bool {
			cl := callOf(v)
			if cl == nil || callQName(&cl.Call) != "bytes.Equal" {
				return false
			}
			isHash := func(x ssa.Value) bool {
				return derivesFrom(x, callResult(bocPath+".Cell.Hash", bocPath+".Cell.Hash256"), true)
			}
			isAddr := func(x ssa.Value) bool {
				return derivesFrom(x, func(y ssa.Value) bool { _, n, ok := fieldOf(y); return ok && n == "Address" }, true)
			}
			a, b := cl.Call.Args[0], cl.Call.Args[1]
			return (isHash(a) && isAddr(b)) || (isHash(b) && isAddr(a))
		}
		c.callDominatedBy(R, cp, modPath+"/tonconnect.ParseStateInit",
			requiredCheck{name: "compareStateInitWithAddress(account, stateInit)", src: callResult(modPath + "/tonconnect.compareStateInitWithAddress"), kind: "bool",
				alts: []requiredCheck{{name: "bytes.Equal(hash(stateInit), account.Address)", src: inlineCmp, kind: "bool"}}})
	}
	c.definitelyAssigned(R, c.mustFn(R, "tonconnect", "ParseStateInit"), 1, "pubKey")
	// the verification primitive: ed25519.Verify, called directly or through the one-line wrapper
	if w := c.fn("tonconnect", "signatureVerify"); w != nil {
		c.returnsUnchanged(R, w, 0, "crypto/ed25519.Verify")
	} else if cp != nil {
		c.check(len(callsTo(cp, "crypto/ed25519.Verify")) >= 1, R, "tonconnect.signatureVerify returns crypto/ed25519.Verify unchanged", cp.Pos(), "CheckProof calls ed25519.Verify directly (no wrapper)", "CheckProof verifies the signature with something other than ed25519.Verify")
	}
	if w := c.fn("tonconnect", "compareStateInitWithAddress"); w != nil {
		c.returnsUnchanged(R, w, 0, "bytes.Equal")
	} else if cp != nil {
		c.check(len(callsTo(cp, "bytes.Equal")) >= 1, R, "tonconnect.compareStateInitWithAddress returns bytes.Equal unchanged", cp.Pos(), "CheckProof compares the hash with bytes.Equal itself (no helper)", "CheckProof no longer compares the state-init hash with the address by bytes.Equal")
	}
	pl := c.mustFn(R, "tonconnect", "Server.CheckPayload")
	if pl != nil {
		c.mustDominate(R, pl, 0, []requiredCheck{
			bytesEqualCheck("stored MAC == computed MAC"),
			{name: "payload expiry comparison", src: func(v ssa.Value) bool {
				b, ok := v.(*ssa.BinOp)
				if !ok {
					return false
				}
				return (derivesFrom(b.X, callResult("time.Since"), false) && derivesFrom(b.Y, fieldLoad("lifeTimePayload"), false)) ||
					((b.Op == token.LSS || b.Op == token.LEQ) && derivesFrom(b.Y, callResult("time.Since"), false) && derivesFrom(b.X, fieldLoad("lifeTimePayload"), false))
			}, kind: "notbool"},
		}, nil, "")
		c.boundsAtSuccess("E8.bounds", pl, 0, "len(payload bytes)", lenOf(nil), 32, 32)
	}
	// the signed item has no length prefix for the address: createMessage hashes whatever
	// convertTonProofMessage decoded, so the 32-byte length is enforced by the account parser that
	// CheckProof runs on the same string (an over-long address would let the address/domain boundary move)
	if f := c.mustFn(R, "ton", "AccountIDFromRaw"); f != nil {
		c.boundsAtSuccess("E8.bounds", f, 1, "len(address bytes)", lenOf(func(v ssa.Value) bool {
			return derivesFrom(v, callResult("encoding/hex.DecodeString"), false)
		}), 32, 32)
	}
	c.floor(R, 10)
	c.floor("E8.bounds", 2)
	// E1: no crash from the entry points that see attacker-supplied proofs
	roots := c.rootsByName("E1.roots", "tonconnect:Server.CheckProof", "tonconnect:Server.CheckPayload", "tonconnect:ParseStateInit",
		"tonconnect:convertTonProofMessage", "tonconnect:createMessage")
	if w := c.fn("tonconnect", "compareStateInitWithAddress"); w != nil {
		roots = append(roots, w)
	}
	// (the one-line wrapper of ed25519.Verify is reachable from CheckProof when it exists; it is not an entry point of its own)
	if w := c.fn("tonconnect", "signatureVerify"); w != nil {
		roots = append(roots, w)
	}
	trav := map[string]bool{"tonconnect": true, "ton": true, "wallet": true, "boc": true, "tlb": true, "utils": true}
	c.panicFree(e1cfg{roots: roots, pkgs: map[string]bool{"tonconnect": true, "ton": true}, traverse: trav, maxDepth: c.e1Depth(), exc: excC19, excP5: map[string]excEntry{}})
	c.errflow(excC19E2, "tonconnect")
	c.tonconnectSmallFacts()
	for _, f := range c.moduleFuncs("tonconnect") {
		c.presenceGuards(f)
		c.defaultingPolarity(f)
		c.lengthMatchGuards(f)
	}
	c.radixDiscipline("E11.radix", "tonconnect", "ton")
	c.floor("E1.P2-bounds", 10)
	c.floor("E2.R-drop", 10)
	c.tonProofLayout()
	c.proofDataflow()
	c.hashSingleImplementation() // compareStateInitWithAddress trusts Cell.Hash of a parsed state-init
	c.walletConfigFlow()         // the state-init the key is taken from must hash to the address: both come from the wallet package
	return propInfo{
		explanation: "Static structural clauses of C19 (DESIGN.md §4 C19): every accepting exit of CheckProof is dominated by the passing edges of payload check, lifetime comparison, domain check, signature verification, and the state-init key extraction is dominated by the state-init/address comparison; CheckPayload accepts only through the constant-time MAC comparison, the expiry comparison and the length check; signed-message byte layout equals the spec; no panic is reachable from the entry points; error discipline in package tonconnect. Decides these necessary conditions, not unforgeability.",
		assumptions: []string{"ed25519/HMAC/SHA-256 behave as documented", "the clock is not modelled"},
	}
}

// fieldLoad matches a load of a struct field with the given name.
func fieldLoad(name string) srcPred {
	return func(v ssa.Value) bool {
		u, ok := v.(*ssa.UnOp)
		if !ok {
			return false
		}
		_, fn, ok := fieldOf(u.X)
		return ok && fn == name
	}
}

var excC19 = map[string]excEntry{
	"(*tonconnect.Server).CheckPayload P2 slice hash.Hash.Sum()[:16]": {"Sum(nil) of an HMAC-SHA256 returns exactly 32 bytes (library contract)", nil},
}
var excC19E2 = map[string]string{
	"(*tonconnect.Server).CheckProof R-ignored tonconnect.Server.getWalletPubKey": "documented fallback: when the key cannot be fetched from the chain it is taken from the supplied state-init, which must hash to the address (checked under E8)",
}

func (c *Ctx) tonProofLayout() {
	const R = "E7.bytelayout"
	p := c.pkg("tonconnect")
	if f := c.mustFn(R, "tonconnect", "createMessage"); f != nil {
		sums := callsTo(f, "crypto/sha256.Sum256")
		if len(sums) != 2 {
			c.bad(R, "createMessage = sha256(ffff|ton-connect|sha256(item))", f.Pos(), fmt.Sprintf("createMessage has %d SHA-256 applications, the format has two (item hash, full message hash)", len(sums)))
		} else {
			inner := c.assembled(f, sums[0].Call.Args[0])
			outer := c.assembled(f, sums[1].Call.Args[0])
			gotI := strings.Join(inner, " | ")
			gotO := strings.Join(outer, " | ")
			wantI := `"ton-proof-item-v2/" | buf4{BE32[:](uint32<-int32 workChain)} | field:address | buf4{LE32[:](uint32<-int len(.domain))} | field:domain | buf8{LE64[:](uint64<-int64 ts)} | field:payload`
			c.check(gotI == wantI, R, "ton-proof item = prefix | wc BE32 | addr | len(domain) LE32 | domain | ts LE64 | payload", sums[0].Pos(), gotI,
				"createMessage assembles the signed item as\n      "+gotI+"\n    the ton-proof format is\n      "+wantI)
			okO := len(outer) == 3 && outer[0] == "lit{ff ff}" && outer[1] == `"ton-connect"` && outer[2] == "call:crypto/sha256.Sum256"
			c.check(okO, R, "signed message = sha256(ff ff | 'ton-connect' | sha256(item))", sums[1].Pos(), gotO, "createMessage assembles the full message as "+gotO+"; the format is ff ff | 'ton-connect' | sha256(item)")
			// len(domain) is the length of the same field that is appended
			okL := false
			allInstrs(f, func(_ *ssa.BasicBlock, in ssa.Instruction) {
				if cl, ok := in.(*ssa.Call); ok {
					if b, ok := cl.Call.Value.(*ssa.Builtin); ok && b.Name() == "len" {
						if _, n, ok := fieldOfLoad(cl.Call.Args[0]); ok && n == "domain" {
							okL = true
						}
					}
				}
			})
			c.check(okL, R, "the length prefix is len(domain)", f.Pos(), "len(message.domain)", "the 4-byte length in the signed item is not the length of the domain that follows it")
			// the function returns the outer hash
			okR := false
			for _, r := range returnsOf(f) {
				if derivesFrom(retVal(r, 0), func(v ssa.Value) bool { return v == ssa.Value(sums[1]) }, false) {
					okR = true
				}
			}
			c.check(okR, R, "createMessage returns the outer hash", f.Pos(), "res[:]", "createMessage no longer returns sha256 of the full message")
		}
	}
	// prefixes
	if p != nil {
		c.check(constStrEquals(p, "tonProofPrefix", "ton-proof-item-v2/") && constStrEquals(p, "tonConnectPrefix", "ton-connect"), R, "prefix constants", token.NoPos, "ton-proof-item-v2/ and ton-connect", "the ton-proof prefix constants changed")
	}
	// payload: nonce8 | expiry BE64 [8:16] | hmac-sha256(secret, [0:16])[:16]
	if f := c.mustFn(R, "tonconnect", "Server.GeneratePayload"); f != nil {
		ws := c.byteWrites(f)
		c.check(len(ws) == 1 && ws[0].how == "BE64" && ws[0].lo == "8" && ws[0].hi == "16", R, "GeneratePayload writes expiry BE64 at [8:16]", f.Pos(), fieldsString(ws), "GeneratePayload writes "+fieldsString(ws)+"; CheckPayload reads the time big-endian at [8:16]")
		okRand, okLen, okOut, okMac := false, false, false, false
		allInstrs(f, func(_ *ssa.BasicBlock, in ssa.Instruction) {
			switch x := in.(type) {
			case *ssa.Slice:
				if al, ok := x.X.(*ssa.Alloc); ok && al.Comment == "makeslice" && x.Low == nil {
					if k, ok := constInt(x.High); ok {
						okLen = k == 16
					}
				}
			case *ssa.Call:
				q := callQName(&x.Call)
				if q == "crypto/rand.Read" {
					_, lo, hi := sliceBounds(x.Call.Args[0])
					okRand = (lo == "" || lo == "0") && hi == "8"
				}
				if q == "encoding/hex.EncodeToString" {
					_, lo, hi := sliceBounds(x.Call.Args[0])
					okOut = (lo == "" || lo == "0") && hi == "32"
				}
				if x.Call.IsInvoke() && x.Call.Method.Name() == "Sum" {
					if sl, ok := x.Call.Args[0].(*ssa.Slice); ok {
						if al, ok := sl.X.(*ssa.Alloc); ok && al.Comment == "makeslice" {
							okMac = true
						}
					}
				}
				// append(body, mac(body)...) with the MAC computed by an unexported helper over the same 16 bytes
				if bi, ok := x.Call.Value.(*ssa.Builtin); ok && bi.Name() == "append" && len(x.Call.Args) == 2 {
					if body, ok := macBody(x.Call.Args[1], 0); ok {
						isMade := func(v ssa.Value) bool {
							al, ok := bufferOf(v).(*ssa.Alloc)
							return ok && al.Comment == "makeslice"
						}
						if isMade(body) && isMade(x.Call.Args[0]) && bufferOf(body) == bufferOf(x.Call.Args[0]) {
							okMac = true
						}
					}
				}
			}
		})
		c.check(okRand && okLen && okOut && okMac, R, "GeneratePayload = hex(nonce8 | expiry8 | mac[:16])", f.Pos(), "make 16; rand [:8]; Sum appended to the 16 bytes; hex of [:32]", fmt.Sprintf("GeneratePayload layout changed (16-byte body %v, random nonce [:8] %v, MAC appended to the body %v, output [:32] %v)", okLen, okRand, okMac, okOut))
	}
	if f := c.mustFn(R, "tonconnect", "Server.CheckPayload"); f != nil {
		rs := c.byteReads(f)
		c.check(len(rs) == 1 && rs[0].how == "BE64" && rs[0].lo == "8" && rs[0].hi == "16", R, "CheckPayload reads expiry BE64 at [8:16]", f.Pos(), fieldsString(rs), "CheckPayload reads "+fieldsString(rs)+"; GeneratePayload writes the time big-endian at [8:16]")
		okW, okCmp := false, false
		allInstrs(f, func(_ *ssa.BasicBlock, in ssa.Instruction) {
			if cl, ok := in.(*ssa.Call); ok {
				if cl.Call.IsInvoke() && cl.Call.Method.Name() == "Write" {
					_, lo, hi := sliceBounds(cl.Call.Args[0])
					okW = (lo == "" || lo == "0") && hi == "16"
				}
				if q := callQName(&cl.Call); q == "crypto/subtle.ConstantTimeCompare" || q == "crypto/hmac.Equal" || q == "bytes.Equal" {
					_, lo0, hi0 := sliceBounds(cl.Call.Args[0])
					_, lo1, hi1 := sliceBounds(cl.Call.Args[1])
					okCmp = lo0 == "16" && hi0 == "" && (lo1 == "" || lo1 == "0") && hi1 == "16" && derivesFrom(cl.Call.Args[1], func(v ssa.Value) bool {
						c2 := callOf(v)
						return c2 != nil && c2.Call.IsInvoke() && c2.Call.Method.Name() == "Sum"
					}, false)
					// the MAC taken through an unexported helper: what it is computed over is the helper's argument
					if body, ok := macBody(cl.Call.Args[1], 0); ok && callOf(bufferOf(cl.Call.Args[1])) != nil && !callOf(bufferOf(cl.Call.Args[1])).Call.IsInvoke() {
						_, blo, bhi := sliceBounds(body)
						okW = (blo == "" || blo == "0") && bhi == "16"
						okCmp = lo0 == "16" && hi0 == "" && (lo1 == "" || lo1 == "0") && hi1 == "16"
					}
				}
			}
		})
		c.check(okW && okCmp, R, "CheckPayload: mac over [0:16], compared with bytes [16:32]", f.Pos(), "Write(b[:16]); ConstantTimeCompare(b[16:], Sum(nil)[:16])", fmt.Sprintf("CheckPayload no longer MACs exactly the 16-byte body (%v) and compares bytes [16:] with the first 16 MAC bytes (%v)", okW, okCmp))
	}
	// both sides key the MAC the same way
	var keys []string
	for _, name := range []string{"Server.GeneratePayload", "Server.CheckPayload"} {
		if f := c.mustFn(R, "tonconnect", name); f != nil {
			for _, cl := range c.callsToDeep(f, "crypto/hmac.New") {
				k := "?"
				if _, n, ok := fieldOfLoad(stripConv(cl.Call.Args[1])); ok {
					k = n
				}
				h := shape(cl.Call.Args[0], 2)
				if fn, ok := cl.Call.Args[0].(*ssa.Function); ok {
					h = fn.String()
				}
				keys = append(keys, h+"/"+k)
			}
		}
	}
	c.check(len(keys) == 2 && keys[0] == keys[1] && strings.Contains(keys[0], "sha256") && strings.HasSuffix(keys[0], "/secret"), R, "payload MAC = HMAC-SHA256 keyed with the server secret on both sides", token.NoPos, fmt.Sprint(keys), fmt.Sprintf("GeneratePayload and CheckPayload key the MAC differently: %v", keys))
	c.floor(R, 9)
}

// proofDataflow: CheckProof verifies the signature over the message built from the same proof
// whose address selects the key, and returns the key it verified with.
func (c *Ctx) proofDataflow() {
	const R = "E7.dataflow"
	f := c.mustFn(R, "tonconnect", "Server.CheckProof")
	if f == nil {
		return
	}
	tp := f.Params[2]
	fromTP := func(v ssa.Value) bool { return v == ssa.Value(tp) }
	// calls made by CheckProof itself or by an unexported helper it delegates a step to
	deepCalls := func(qs ...string) []*ssa.Call {
		var out []*ssa.Call
		for _, g := range c.helperClosure(f, 1, func(h *ssa.Function) bool {
			return plainHelper(h) == nil || h.Name() == "compareStateInitWithAddress" || h.Name() == "createMessage" || h.Name() == "convertTonProofMessage" || h.Name() == "signatureVerify" || h.Name() == "getWalletPubKey"
		}) {
			for _, q := range qs {
				out = append(out, callsTo(g, q)...)
			}
		}
		return out
	}
	for _, cl := range callsTo(f, modPath+"/tonconnect.convertTonProofMessage") {
		c.check(cl.Call.Args[0] == ssa.Value(tp), R, "message fields come from the submitted proof", cl.Pos(), "convertTonProofMessage(tp)", "CheckProof parses something other than the submitted proof")
	}
	for _, cl := range callsTo(f, modPath+"/ton.ParseAccountID") {
		okv := derivesFrom(cl.Call.Args[0], func(v ssa.Value) bool { _, n, ok := fieldOfLoad(v); return ok && n == "Address" }, false) && derivesFrom(cl.Call.Args[0], fromTP, false)
		c.check(okv, R, "the key is looked up for the proof's address", cl.Pos(), "ParseAccountID(tp.Address)", "CheckProof looks up the key for an address other than tp.Address")
	}
	acc := callResult(modPath + "/ton.ParseAccountID")
	for _, q := range []string{modPath + "/tonconnect.Server.getWalletPubKey", modPath + "/tonconnect.compareStateInitWithAddress"} {
		for _, cl := range deepCalls(q) {
			okv := false
			for _, a := range cl.Call.Args {
				if derivesFrom(a, acc, false) {
					okv = true
				}
			}
			c.check(okv, R, shortQ(q)+" receives the proof's account id", cl.Pos(), "account id from ParseAccountID(tp.Address)", "CheckProof calls "+shortQ(q)+" with an account id that is not the proof's address")
		}
	}
	si := func(v ssa.Value) bool { _, n, ok := fieldOfLoad(v); return ok && n == "StateInit" }
	var siArgs []string
	for _, q := range []string{modPath + "/tonconnect.compareStateInitWithAddress", modPath + "/tonconnect.ParseStateInit"} {
		for _, cl := range deepCalls(q) {
			a := cl.Call.Args[len(cl.Call.Args)-1]
			c.check(derivesFrom(a, si, false), R, shortQ(q)+" receives the proof's state-init", cl.Pos(), "tp.Proof.StateInit", "CheckProof passes a state-init other than the proof's to "+shortQ(q))
			siArgs = append(siArgs, shape(a, 4))
		}
	}
	if c.fn("tonconnect", "compareStateInitWithAddress") == nil && len(siArgs) == 1 {
		// the comparison inlined: the hash given to bytes.Equal must come from the same proof field
		for _, cl := range deepCalls("bytes.Equal") {
			for _, a := range cl.Call.Args {
				if derivesFrom(a, callResult(bocPath+".Cell.Hash", bocPath+".Cell.Hash256"), true) && derivesFrom(a, si, true) {
					siArgs = append(siArgs, siArgs[0])
					c.ok(R, "compareStateInitWithAddress receives the proof's account id", cl.Pos(), "inlined: bytes.Equal(hash of tp.Proof.StateInit, account address)")
					c.ok(R, "compareStateInitWithAddress receives the proof's state-init", cl.Pos(), "inlined: the hashed cells are decoded from tp.Proof.StateInit")
				}
			}
		}
	}
	c.check(len(siArgs) == 2 && siArgs[0] == siArgs[1], R, "the state-init whose hash is compared is the one the key is taken from", f.Pos(), fmt.Sprint(siArgs), fmt.Sprintf("the state-init compared with the address and the one the key is extracted from differ: %v", siArgs))
	for _, cl := range deepCalls(modPath+"/tonconnect.signatureVerify", "crypto/ed25519.Verify") {
		if cl.Parent().Name() == "signatureVerify" {
			continue
		}
		okM := derivesFrom(cl.Call.Args[1], callResult(modPath+"/tonconnect.createMessage"), false)
		okS := derivesFrom(cl.Call.Args[2], func(v ssa.Value) bool { _, n, ok := fieldOfLoad(v); return ok && n == "signature" }, false)
		okK := derivesFrom(cl.Call.Args[0], callResult(modPath+"/tonconnect.Server.getWalletPubKey", modPath+"/tonconnect.ParseStateInit"), false)
		c.check(okM && okS && okK, R, "signatureVerify(key of the address, createMessage(parsed), parsed.signature)", cl.Pos(), "arguments traced", fmt.Sprintf("signatureVerify arguments are not (looked-up key %v, created message %v, proof signature %v)", okK, okM, okS))
		// returned key == verified key
		for _, sp := range successPoints(f, 0) {
			c.check(retVal(sp.Ret, 1) == cl.Call.Args[0] || unspill(sp.Ret.Results[1]) == cl.Call.Args[0], R, "the key returned is the key the signature was verified with", sp.Ret.Pos(), "same SSA value", "CheckProof returns a public key different from the one used in signatureVerify")
		}
	}
	for _, cl := range callsTo(f, modPath+"/tonconnect.createMessage") {
		c.check(derivesFrom(cl.Call.Args[0], callResult(modPath+"/tonconnect.convertTonProofMessage"), false), R, "the verified message is built from the parsed proof", cl.Pos(), "createMessage(parsed)", "CheckProof builds the message to verify from something other than the parsed proof")
	}
	// convertTonProofMessage copies every field
	if g := c.mustFn(R, "tonconnect", "convertTonProofMessage"); g != nil {
		want := map[string]string{"domain": "Domain", "ts": "Timestamp", "payload": "Payload", "stateInit": "StateInit", "signature": "Signature", "address": "Address", "workChain": "Address"}
		for dst, src := range want {
			okv := false
			for _, st := range fieldStores(g, dst) {
				okv = derivesFrom(st.Val, func(v ssa.Value) bool { _, n, ok := fieldOfLoad(v); return ok && n == src }, true)
			}
			c.check(okv, R, "parsedMessage."+dst+" comes from proof."+src, g.Pos(), "field copy traced", "convertTonProofMessage no longer fills "+dst+" from the proof's "+src)
		}
	}
	// who may write the parsed proof: only its constructor
	nw := 0
	for _, g := range c.moduleFuncs("tonconnect") {
		allInstrs(g, func(_ *ssa.BasicBlock, in ssa.Instruction) {
			if st, ok := in.(*ssa.Store); ok {
				if tn, fld, ok := fieldOf(st.Addr); ok && tn == "tonconnect.parsedMessage" {
					nw++
					c.check(g.Name() == "convertTonProofMessage", R, fnName(g)+" writes parsedMessage."+fld, st.Pos(), "constructor", fnName(g)+" modifies parsedMessage."+fld+" after it was parsed from the proof: the verified message would no longer be the submitted one")
				}
			}
		})
	}
	// client side signs createMessage(convertTonProofMessage(proof)) and stores the signature
	if g := c.mustFn(R, "tonconnect", "CreateSignedProof"); g != nil {
		okv := false
		for _, q := range []string{modPath + "/tonconnect.signMessage", "crypto/ed25519.Sign"} {
			for _, cl := range callsTo(g, q) {
				okv = derivesFrom(cl.Call.Args[1], callResult(modPath+"/tonconnect.createMessage"), false)
			}
		}
		okStore := false
		for _, st := range fieldStores(g, "Signature") {
			okStore = derivesFrom(st.Val, callResult(modPath+"/tonconnect.signMessage", "crypto/ed25519.Sign"), true)
		}
		c.check(okv && okStore, R, "client signs the same createMessage and stores the signature", g.Pos(), "signMessage(key, createMessage(convert(proof)))", "CreateSignedProof no longer signs createMessage's output / stores the signature in the proof")
	}
	c.floor(R, 25)
}

// tonconnectSmallFacts (after the mutation battery).
func (c *Ctx) tonconnectSmallFacts() {
	const R = "E15.proof-dataflow"
	// StaticDomain(d) accepts exactly d
	if f := c.fn("tonconnect", "StaticDomain"); f != nil {
		okv := false
		for _, a := range f.AnonFuncs {
			for _, r := range returnsOf(a) {
				if bo, ok := retVal(r, 0).(*ssa.BinOp); ok && bo.Op == token.EQL {
					_, p1 := bo.X.(*ssa.Parameter)
					_, p2 := bo.Y.(*ssa.Parameter)
					fv1 := derivesFrom(bo.X, func(v ssa.Value) bool { _, ok := v.(*ssa.FreeVar); return ok }, false)
					fv2 := derivesFrom(bo.Y, func(v ssa.Value) bool { _, ok := v.(*ssa.FreeVar); return ok }, false)
					okv = (p1 && fv2) || (p2 && fv1)
				}
			}
		}
		c.check(okv, R, "StaticDomain accepts exactly the configured domain", f.Pos(), "returns argument == captured domain", "tonconnect.StaticDomain no longer returns the equality of the presented domain with the configured one: a proof signed for another domain is accepted (or the right one refused)")
	}
	// the public key read from the chain is left-padded to 32 bytes: the length window accepts 32
	if f := c.fn("tonconnect", "Server.getWalletPubKey"); f != nil {
		allInstrs(f, func(b *ssa.BasicBlock, in ssa.Instruction) {
			mk, ok := in.(*ssa.MakeSlice)
			if !ok {
				return
			}
			sub, ok := mk.Len.(*ssa.BinOp)
			if !ok || sub.Op != token.SUB {
				return
			}
			n, ok := constInt(sub.X)
			if !ok {
				return
			}
			upper := int64(-1)
			for _, ft := range factsAt(f, b) {
				bo, ok := ft.Cond.(*ssa.BinOp)
				if !ok || stripConv(bo.X) != stripConv(sub.Y) && shape(bo.X, 3) != shape(sub.Y, 3) {
					continue
				}
				k, ok := constInt(bo.Y)
				if !ok {
					continue
				}
				op := bo.Op
				if ft.Truth {
					continue
				}
				switch op { // the condition is FALSE here
				case token.GTR:
					upper = k
				case token.GEQ:
					upper = k - 1
				}
			}
			c.check(upper == n, R, "a public key of the full 32 bytes is accepted", mk.Pos(), fmt.Sprintf("length <= %d on the padding path, padded to %d", upper, n), fmt.Sprintf("getWalletPubKey pads the key to %d bytes but only lets lengths up to %d through: a key without leading zero bytes (almost every key) is refused, or a longer one makes the padding length negative", n, upper))
		})
	}
	// the state-init is parsed where it was supplied
	if f := c.fn("tonconnect", "Server.CheckProof"); f != nil {
		for _, cl := range callsTo(f, modPath+"/tonconnect.ParseStateInit") {
			arg := cl.Call.Args[0]
			known := false
			for _, ft := range factsAt(f, cl.Block()) {
				bo, ok := ft.Cond.(*ssa.BinOp)
				if !ok || (bo.Op != token.EQL && bo.Op != token.NEQ) {
					continue
				}
				if cst, ok := bo.Y.(*ssa.Const); ok && cst.Value != nil && cst.Value.ExactString() == `""` && shape(bo.X, 4) == shape(arg, 4) {
					if (bo.Op == token.EQL) == ft.Truth {
						known = true
					}
				}
			}
			c.check(!known, R, "the state-init is parsed where one was supplied", cl.Pos(), "not on the path where it is the empty string", "CheckProof parses the state-init exactly on the path where it has just been found EMPTY (inverted emptiness test): a proof that brings its state-init is refused")
		}
	}
}

// macBody: v is (a slice of) a MAC - the result of Sum on a hash whose one Write in the same function supplies the
// data, or of an unexported helper that returns such a Sum over one of its parameters. Returns the data MACed.
func macBody(v ssa.Value, depth int) (ssa.Value, bool) {
	if depth > 2 {
		return nil, false
	}
	for {
		sl, ok := v.(*ssa.Slice)
		if !ok {
			break
		}
		v = sl.X
	}
	cl := callOf(v)
	if cl == nil {
		return nil, false
	}
	if cl.Call.IsInvoke() && cl.Call.Method.Name() == "Sum" {
		var data ssa.Value
		n := 0
		allInstrs(cl.Parent(), func(_ *ssa.BasicBlock, in ssa.Instruction) {
			if w, ok := in.(*ssa.Call); ok && w.Call.IsInvoke() && w.Call.Method.Name() == "Write" && w.Call.Value == cl.Call.Value {
				data = w.Call.Args[0]
				n++
			}
		})
		return data, n == 1
	}
	h := plainHelper(cl.Call.StaticCallee())
	if h == nil {
		return nil, false
	}
	var body ssa.Value
	for _, r := range returnsOf(h) {
		b, ok := macBody(retVal(r, 0), depth+1)
		if !ok {
			return nil, false
		}
		prm, isPrm := stripConv(b).(*ssa.Parameter)
		if !isPrm {
			return nil, false
		}
		for i, q := range h.Params {
			if q == prm && i < len(cl.Call.Args) {
				if body != nil && body != cl.Call.Args[i] {
					return nil, false
				}
				body = cl.Call.Args[i]
			}
		}
	}
	return body, body != nil
}
