package main

import (
	"fmt"
	"go/types"
	"regexp"
	"sort"
	"strings"

	"golang.org/x/tools/go/ssa"
)

// E13 jsonpair: MarshalJSON / UnmarshalJSON descriptor agreement for hand-written pairs.

type jsonDesc struct {
	tokens map[string]bool
	notes  []string
}

func (d *jsonDesc) add(t string)      { d.tokens[t] = true }
func (d *jsonDesc) has(t string) bool { return d.tokens[t] }
func (d *jsonDesc) String() string {
	var ks []string
	for k := range d.tokens {
		ks = append(ks, k)
	}
	sort.Strings(ks)
	return "{" + strings.Join(ks, " ") + "}"
}

var verbRe = regexp.MustCompile(`%[-+# 0]*[0-9]*(?:\.[0-9]+)?([a-zA-Z])`)

// scanJSON collects descriptor tokens from f and the in-module functions it calls (depth-limited).
func (c *Ctx) scanJSON(f *ssa.Function, writer bool, d *jsonDesc, depth int, seen map[*ssa.Function]bool) {
	if f == nil || seen[f] || depth > 3 || len(f.Blocks) == 0 {
		return
	}
	seen[f] = true
	allInstrs(f, func(_ *ssa.BasicBlock, in ssa.Instruction) {
		cl, ok := in.(*ssa.Call)
		if !ok {
			return
		}
		q := callQName(&cl.Call)
		args := cl.Call.Args
		switch q {
		case "fmt.Sprintf", "fmt.Appendf", "fmt.Sscanf", "fmt.Fscanf":
			fi := 0
			if q == "fmt.Appendf" || q == "fmt.Sscanf" || q == "fmt.Fscanf" {
				fi = 1
			}
			if s, ok := constString(args[fi]); ok {
				if strings.HasPrefix(s, "\"") && strings.HasSuffix(s, "\"") {
					if writer {
						d.add("quoted")
					} else {
						d.add("unquote")
					}
				}
				for _, m := range verbRe.FindAllStringSubmatch(s, -1) {
					switch m[1] {
					case "d":
						d.add("dec")
					case "x", "X":
						d.add("hex")
					case "s", "v":
						d.add("str")
					}
				}
			}
		case "encoding/json.Marshal":
			d.add("json")
			if writer && isStringType(args[0]) {
				d.add("quoted")
			}
		case "encoding/json.Unmarshal":
			d.add("json")
			if !writer && pointsToString(args[1]) {
				d.add("unquote")
			}
		case "strings.Trim", "bytes.Trim", "strings.Trim ":
			if s, ok := constString(args[1]); ok && strings.Contains(s, "\"") {
				d.add("unquote")
			}
		case "strconv.ParseInt", "strconv.ParseUint":
			base, _ := constInt(args[1])
			bits, _ := constInt(args[2])
			sg := "signed"
			if q == "strconv.ParseUint" {
				sg = "unsigned"
			}
			if base == 10 {
				d.add("dec")
			} else if base == 16 {
				d.add("hex")
			} else {
				d.add(fmt.Sprintf("base%d", base)) // a radix no writer of this repository prints
			}
			d.add(fmt.Sprintf("parse-%s-%d", sg, bits))
		case "math/big.Int.SetString":
			if b, ok := constInt(argsOf(cl)[1]); ok && b == 10 {
				d.add("dec")
				d.add("parse-big")
			}
		case "math/big.Int.String":
			d.add("dec")
		case "encoding/hex.EncodeToString", "encoding/hex.DecodeString", "encoding/hex.Decode", "encoding/hex.Encode":
			d.add("hex")
		case bocPath + ".BitString.ToFiftHex", bocPath + ".BitStringFromFiftHex":
			d.add("fift")
		case bocPath + ".Cell.ToBocString", bocPath + ".Cell.ToBocStringCustom", bocPath + ".DeserializeBocHex", bocPath + ".DeserializeSinglRootHex":
			d.add("boc-hex")
		case bocPath + ".Cell.ToBocBase64", bocPath + ".DeserializeBocBase64", bocPath + ".DeserializeSinglRootBase64":
			d.add("boc-b64")
		}
		switch q {
		case bocPath + ".BitString.ToFiftHex", bocPath + ".BitStringFromFiftHex", bocPath + ".Cell.ToBocString", bocPath + ".Cell.ToBocStringCustom", bocPath + ".DeserializeBocHex", bocPath + ".DeserializeSinglRootHex",
			bocPath + ".Cell.ToBocBase64", bocPath + ".DeserializeBocBase64", bocPath + ".DeserializeSinglRootBase64":
			return // a named text form: its internals are not part of the descriptor
		}
		if sc := cl.Call.StaticCallee(); sc != nil && inModule(sc) {
			c.scanJSON(origin(sc), writer, d, depth+1, seen)
		}
	})
}

func isStringType(v ssa.Value) bool {
	v = stripConv(v)
	b, ok := v.Type().Underlying().(*types.Basic)
	return ok && b.Info()&types.IsString != 0
}

func pointsToString(v ssa.Value) bool {
	v = stripConv(v)
	p, ok := v.Type().Underlying().(*types.Pointer)
	if !ok {
		return false
	}
	b, ok := p.Elem().Underlying().(*types.Basic)
	return ok && b.Info()&types.IsString != 0
}

// jsonPairs checks every named type of the given packages that has both methods (the generated
// integer family is covered by intJSON).
func (c *Ctx) jsonPairs(rels ...string) {
	const R = "E13.jsonpair"
	for _, rel := range rels {
		p := c.pkg(rel)
		if p == nil {
			continue
		}
		sc := p.Types.Scope()
		for _, name := range sc.Names() {
			tn, ok := sc.Lookup(name).(*types.TypeName)
			if !ok || tn.IsAlias() {
				continue
			}
			named, ok := tn.Type().(*types.Named)
			if !ok {
				continue
			}
			if rel == "tlb" && intNameRe.MatchString(name) {
				continue
			}
			mj, uj := c.method(named, "MarshalJSON"), c.method(named, "UnmarshalJSON")
			if mj == nil || uj == nil {
				continue
			}
			w := &jsonDesc{tokens: map[string]bool{}}
			r := &jsonDesc{tokens: map[string]bool{}}
			c.scanJSON(mj, true, w, 0, map[*ssa.Function]bool{})
			c.scanJSON(uj, false, r, 0, map[*ssa.Function]bool{})
			key := rel + "." + name
			// generic containers delegate to json for their element type
			var probs []string
			if w.has("quoted") && !r.has("unquote") && !(w.has("json") && r.has("json")) {
				probs = append(probs, "the writer quotes its output but the reader does not strip quotes")
			}
			for _, base := range []string{"dec", "hex", "fift", "boc-hex", "boc-b64"} {
				if w.has(base) && !r.has(base) {
					probs = append(probs, "the writer emits "+base+" text but the reader does not parse "+base)
				}
			}
			for t := range r.tokens {
				if strings.HasPrefix(t, "base") && !w.has(t) {
					probs = append(probs, "the reader parses a number in "+t+", a radix the writer never prints (the writer uses decimal/hexadecimal text)")
				}
			}
			// signedness and width of decimal integers for integer-kinded types
			if b, ok := named.Underlying().(*types.Basic); ok && b.Info()&types.IsInteger != 0 && w.has("dec") {
				signed := b.Info()&types.IsUnsigned == 0
				bits := intBits(b)
				want := fmt.Sprintf("parse-%s-%d", map[bool]string{true: "signed", false: "unsigned"}[signed], bits)
				if !r.has(want) {
					probs = append(probs, fmt.Sprintf("the value is a %s %d-bit integer printed in decimal; the reader must use %s", map[bool]string{true: "signed", false: "unsigned"}[signed], bits, want))
				}
			}
			if len(w.tokens) == 0 || len(r.tokens) == 0 {
				c.note("jsonpair: %s not covered (writer %s reader %s)", key, w, r)
				continue
			}
			c.check(len(probs) == 0, R, key, mj.Pos(), fmt.Sprintf("writer %s / reader %s agree on quoting, base and integer parsing", w, r),
				fmt.Sprintf("JSON writer and reader of %s disagree: %s (writer %s, reader %s)", key, strings.Join(probs, "; "), w, r))
		}
	}
}
