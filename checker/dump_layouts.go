package main

import (
	"fmt"
	"go/types"
	"os"
	"sort"
)

// dumpLayouts prints derived layouts of all exported struct types of given packages (tooling aid
// used to audit the spec by hand; not part of any check).
func dumpLayouts(c *Ctx, rels ...string) {
	for _, rel := range rels {
		p := c.pkg(rel)
		if p == nil {
			continue
		}
		names := p.Types.Scope().Names()
		sort.Strings(names)
		for _, name := range names {
			tn, ok := p.Types.Scope().Lookup(name).(*types.TypeName)
			if !ok || tn.IsAlias() {
				continue
			}
			n, ok := tn.Type().(*types.Named)
			if !ok || n.TypeParams().Len() > 0 {
				continue
			}
			if _, ok := n.Underlying().(*types.Struct); !ok {
				continue
			}
			l := c.newLayout()
			l.noExpand = os.Getenv("NOEXPAND") != ""
			k := typeKey(n)
			l.stack[k] = true
			t := l.layoutUnder(n.Underlying(), k)
			cust := ""
			if hasMethod(n, "MarshalTLB") || hasMethod(n, "UnmarshalTLB") {
				cust = " [custom]"
			}
			fmt.Fprintf(os.Stdout, "%s%s = %s\n", k, cust, normTerm(t))
			for _, pr := range l.problem {
				fmt.Fprintf(os.Stdout, "   PROBLEM: %s\n", pr)
			}
		}
	}
}
