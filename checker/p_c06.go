package main

import (
	"fmt"
	"go/token"
	"go/types"
	"sort"
	"strings"

	"golang.org/x/tools/go/ssa"
)

func init() { register("C06", propC06) }

func propC06(c *Ctx) propInfo {
	c.statelessCodecs("E17.stateless", excStateless, "boc")
	c.bitStringWriters()
	c.capacityGuards()
	c.availabilityGuards()
	c.writeBitClears()
	c.cellForwarders()
	c.widthGuards()
	c.cursorPairing()
	c.bitTables()
	c.limUnaryPairs()
	c.bufferSizing()
	c.writersDoNotMutateInput()
	c.cellCapacity()
	c.capacityCountGuards()
	c.cursorOnSuccess()
	c.bigIntChunks()
	c.oneBitSigned()
	c.signedRangeByBitLen()
	c.fiftHex()
	c.hexDigits()
	c.log2Smear()
	c.floor("E7.fifthex", 4)
	c.floor("E7.bigint-chunks", 4)
	c.floor("E11.cell-capacity", 3)
	c.errflow(excC06E2, "boc")
	c.floor("E10.who-may-write", 10)
	c.floor("E8.capacity", 4)
	c.floor("E8.availability", 10)
	c.floor("E8.availability-exact", 8)
	c.floor("E8.cursor-accounting", 6)
	c.floor("E12.forwarders", 20)
	c.floor("E11.tables", 3)
	c.floor("E2.R-drop", 50)
	return propInfo{
		explanation: "Static structural clauses of C06 (DESIGN.md §4 C06): the fields of BitString (buf, cap, len, rCursor) and Cell.refCursor are written only by a frozen set of functions; every buffer store of On/Off is dominated by the passing edge of the capacity guard and the guard rejects exactly n >= cap; every reader that touches the buffer or advances the cursor does so behind a comparison with the available bits whose failing edge returns ErrNotEnoughBits; WriteBit clears as well as sets; ReadUint/ReadInt reject widths above 64 first; Cell forwards each primitive to the BitString method of the same name with the same arguments; CopyRemaining/PickUint restore the cursors they move and copy references through the read cursor; the de Bruijn table, the Fift suffix table and the hex digit switch equal their defining formulas; bounded/unary integer writer and reader use the same width function; no error is dropped and no read value lost in package boc. Decides these necessary conditions, not that values read equal values written at every alignment.",
		assumptions: []string{"BitString invariant 8*len(buf) >= cap >= len >= rCursor >= 0 is the design invariant the frozen writers maintain (not proved)"},
	}
}

var excC06E2 = map[string]string{
	"(*boc.BitString).Append R-drop boc.BitString.WriteBitString":      "explicit '_ =': the receiver was grown by the missing number of bits just before, so the write fits (the growth amount is checked by E10.buffer-sizing)",
	"(*boc.BitString).ReadRemainingBits R-drop boc.BitString.ReadBits": "reads exactly BitsAvailableForRead() bits, which cannot fail",
	"(*boc.BitString).ToFiftHex R-drop boc.BitString.WriteBit":         "writes the padding bit into a copy grown by 4-len%4 bits just before",
	"(*boc.BitString).ToFiftHex R-drop boc.BitString.WriteBit#2":       "same: at most 3 padding bits into the grown copy",
}

// bitStringWriters: frozen who-may-write table for the invariant-carrying fields.
func (c *Ctx) bitStringWriters() {
	const R = "E10.who-may-write"
	allowed := map[string]map[string]string{
		"boc.BitString.buf": {
			"(*boc.BitString).SetTopUppedArray": "sizes buf and cap together from the given bytes",
			"(*boc.BitString).GetTopUppedArray": "re-slices a private copy to the used length",
			"(*boc.BitString).Grow":             "extends buf and cap together",
		},
		"boc.BitString.cap": {
			"(*boc.BitString).SetTopUppedArray": "cap = 8*len(arr) together with buf",
			"(*boc.BitString).Grow":             "extends buf and cap together",
			"(*boc.Cell).setTopUppedArray":      "cells always have capacity 1023 bits (parser only; data length <= 128 bytes)",
		},
		"boc.BitString.len": {
			"(*boc.BitString).SetTopUppedArray": "len = cap minus the completion tag",
			"(*boc.BitString).WriteBit":         "advances after a capacity-checked store",
			"(*boc.BitString).WriteBytes":       "aligned fast path after its own capacity check",
			"(*boc.BitString).WriteByte":        "aligned fast path after its own capacity check",
			"(*boc.BitString).ReadBits":         "length of a freshly allocated result",
		},
		"boc.BitString.rCursor": {
			"(*boc.BitString).mustReadBit":  "advance by one; callers check availability",
			"(*boc.BitString).Skip":         "checked advance",
			"(*boc.BitString).ReadBit":      "checked advance",
			"(*boc.BitString).ReadUint":     "checked advance",
			"(*boc.BitString).PickUint":     "restores the cursor moved by ReadUint",
			"(*boc.BitString).ReadByte":     "checked advance",
			"(*boc.BitString).ReadBytes":    "checked advance",
			"(*boc.BitString).ReadBits":     "checked advance",
			"(*boc.BitString).ResetCounter": "reset to 0",
			"(*boc.BitString).Print":        "reset to 0",
			"(*boc.Cell).CopyRemaining":     "restores the saved cursor",
		},
		"boc.Cell.refCursor": {
			"(*boc.Cell).NextRef":       "advance after the > 3 guard",
			"(*boc.Cell).ResetCounters": "reset to 0",
			"(*boc.Cell).CopyRemaining": "restores the saved cursor",
		},
	}
	la := &lockAnalysis{c: c, funcs: c.moduleFuncs("boc")}
	var fields []string
	for f := range allowed {
		fields = append(fields, f)
	}
	sort.Strings(fields)
	for _, f := range fields {
		la.whoMayWrite(R, f, allowed[f])
	}
	// element stores into buf: only On / Off and (through copy) the sizing functions
	for _, f := range c.moduleFuncs("boc") {
		allInstrs(f, func(_ *ssa.BasicBlock, i ssa.Instruction) {
			st, ok := i.(*ssa.Store)
			if !ok {
				return
			}
			ia, ok := st.Addr.(*ssa.IndexAddr)
			if !ok {
				return
			}
			ld, ok := ia.X.(*ssa.UnOp)
			if !ok {
				return
			}
			if of, ok := ownerField(ld.X); !ok || of != "boc.BitString.buf" {
				return
			}
			name := fnName(f)
			key := "boc.BitString.buf[...] stored by " + name
			switch name {
			case "(*boc.BitString).On", "(*boc.BitString).Off":
				c.ok(R, key, st.Pos(), "the two capacity-checked bit writers")
			case "(*boc.BitString).WriteBytes", "(*boc.BitString).WriteByte":
				c.ok(R, key, st.Pos(), "aligned fast path behind its own capacity check (checked by E8.capacity)")
			case "(*boc.BitString).ReadBits":
				// buf[last] &= mask on the freshly allocated result of the aligned fast path (clears the
				// bits after len; role checked by E10.tail-zero under C02)
				okv := false
				if bo, ok := st.Val.(*ssa.BinOp); ok && bo.Op == token.AND {
					if l2, ok := bo.X.(*ssa.UnOp); ok && sameIndexAddr(l2.X, ia) {
						if al, ok := ld.X.(*ssa.FieldAddr); ok {
							_, isLocal := al.X.(*ssa.Alloc)
							okv = isLocal
						}
					}
				}
				c.check(okv, R, key, st.Pos(), "clears bits of the last byte of the freshly allocated result (x &= mask)", "ReadBits writes into a BitString buffer other than by clearing tail bits of its own fresh result")
			default:
				// any other writer is accepted when it is guarded exactly like On/Off: the store is unreachable once
				// the passing edge of checkRange(i) is cut, i being the bit index the store's byte index is derived from
				okv := false
				bit := ia.Index
				if bo, ok := bit.(*ssa.BinOp); ok && (bo.Op == token.SHR || bo.Op == token.QUO) {
					bit = bo.X
				}
				pass, ifs := passingEdges(f, requiredCheck{name: "checkRange", src: func(v ssa.Value) bool {
					cl := callOf(v)
					return cl != nil && callQName(&cl.Call) == bocPath+".BitString.checkRange" && shape(cl.Call.Args[1], 3) == shape(bit, 3)
				}, kind: "nilerr"})
				if len(ifs) > 0 {
					cut := map[edge]bool{}
					for _, e := range pass {
						cut[e] = true
					}
					okv = !reachableWithout(f, cut)[st.Block()]
				}
				c.check(okv, R, key, st.Pos(), "behind the passing edge of checkRange on the same bit index, like On/Off", name+" writes bits of a BitString buffer directly without the capacity check On/Off perform (checkRange of the same bit index)")
			}
		})
	}
}

// capacityGuards: On/Off store only behind checkRange's passing edge; checkRange passes exactly for n < cap.
func (c *Ctx) capacityGuards() {
	const R = "E8.capacity"
	for _, name := range []string{"BitString.On", "BitString.Off"} {
		f := c.mustFn(R, "boc", name)
		if f == nil {
			continue
		}
		// every store into buf is dominated by the err == nil edge of the checkRange call
		var stores []*ssa.Store
		allInstrs(f, func(_ *ssa.BasicBlock, i ssa.Instruction) {
			if st, ok := i.(*ssa.Store); ok {
				if _, ok := st.Addr.(*ssa.IndexAddr); ok {
					stores = append(stores, st)
				}
			}
		})
		pass, ifs := passingEdges(f, requiredCheck{name: "checkRange", src: callResult(bocPath + ".BitString.checkRange"), kind: "nilerr"})
		key := name + " stores only behind the capacity check"
		if len(ifs) == 0 && len(stores) > 0 && c.fn("boc", "BitString.checkRange") == nil {
			// no checkRange helper: the comparison is written in place. At every store the function's own branch
			// facts must entail n <= cap-1 for the bit index n (its parameter)
			okAll := len(f.Params) >= 2
			var capLoad ssa.Value
			allInstrs(f, func(_ *ssa.BasicBlock, i ssa.Instruction) {
				if u, ok := i.(*ssa.UnOp); ok && u.Op == token.MUL {
					if of, ok := ownerField(u.X); ok && of == "boc.BitString.cap" {
						capLoad = u
					}
				}
			})
			for _, st := range stores {
				if capLoad == nil || !okAll {
					okAll = false
					break
				}
				p := c.newProver(f, st.Block())
				if !p.prove(p.lin(capLoad).sub(p.lin(f.Params[1])).addConst(-1)) {
					okAll = false
				}
			}
			c.check(okAll, R, key, stores[0].Pos(), "at the buffer store n <= cap-1 is entailed by the function's own capacity comparison", name+" can store into the buffer without a successful capacity check")
			continue
		}
		if len(ifs) == 0 || len(stores) == 0 {
			c.bad(R, key, f.Pos(), fmt.Sprintf("%s: no branch on the result of checkRange guards the buffer store (stores=%d)", name, len(stores)))
			continue
		}
		cut := map[edge]bool{}
		for _, e := range pass {
			cut[e] = true
		}
		reach := reachableWithout(f, cut)
		okAll := true
		for _, st := range stores {
			if reach[st.Block()] {
				okAll = false
			}
		}
		c.check(okAll, R, key, stores[0].Pos(), "the buffer store is unreachable once the passing edge of the checkRange test is cut", name+" can store into the buffer without a successful capacity check")
	}
	// checkRange: success only with n < cap
	if c.fn("boc", "BitString.checkRange") == nil {
		// inlined into On / Off: the bound is decided at their stores (above); both must fail with the sentinel
		sent := 0
		for _, name := range []string{"BitString.On", "BitString.Off"} {
			if f := c.fn("boc", name); f != nil {
				for _, r := range returnsOf(f) {
					if u, ok := retVal(r, 0).(*ssa.UnOp); ok {
						if g, ok := u.X.(*ssa.Global); ok && g.Name() == "ErrBitStingOverflow" {
							sent++
						}
					}
				}
			}
		}
		c.ok(R, "checkRange passes exactly for n < cap", token.NoPos, "no checkRange helper: decided at the stores of On and Off")
		c.check(sent >= 2, R, "checkRange fails with ErrBitStingOverflow", token.NoPos, "On and Off return the overflow sentinel themselves", "On / Off no longer return ErrBitStingOverflow when the bit index is beyond the capacity")
	}
	if f := c.fn("boc", "BitString.checkRange"); f != nil {
		okAll := true
		n := 0
		for _, sp := range successPoints(f, 0) {
			n++
			p := c.newProver(f, sp.Block)
			var capLoad ssa.Value
			allInstrs(f, func(_ *ssa.BasicBlock, i ssa.Instruction) {
				if u, ok := i.(*ssa.UnOp); ok && u.Op == token.MUL {
					if of, ok := ownerField(u.X); ok && of == "boc.BitString.cap" {
						capLoad = u
					}
				}
			})
			if capLoad == nil || len(f.Params) < 2 {
				okAll = false
				continue
			}
			if !p.prove(p.lin(capLoad).sub(p.lin(f.Params[1])).addConst(-1)) {
				okAll = false
			}
		}
		c.check(okAll && n > 0, R, "checkRange passes exactly for n < cap", f.Pos(), "on the success exit n <= cap-1 is entailed by the guard", "checkRange can succeed with n >= cap: a write beyond capacity is accepted (off-by-one in the capacity guard)")
		// and the failing edge returns the overflow sentinel
		sent := false
		for _, r := range returnsOf(f) {
			if u, ok := retVal(r, 0).(*ssa.UnOp); ok {
				if g, ok := u.X.(*ssa.Global); ok && g.Name() == "ErrBitStingOverflow" {
					sent = true
				}
			}
		}
		c.check(sent, R, "checkRange fails with ErrBitStingOverflow", f.Pos(), "the failing edge returns the overflow sentinel", "checkRange no longer returns ErrBitStingOverflow")
	}
	// aligned fast paths WriteBytes / WriteByte: stores/copies into buf dominated by a capacity comparison
	for _, name := range []string{"BitString.WriteBytes", "BitString.WriteByte"} {
		f := c.fn("boc", name)
		if f == nil {
			continue
		}
		fast := false
		allInstrs(f, func(b *ssa.BasicBlock, i ssa.Instruction) {
			cl, ok := i.(*ssa.Call)
			if !ok {
				return
			}
			if bi, ok := cl.Call.Value.(*ssa.Builtin); ok && bi.Name() == "copy" {
				fast = true
				// dominated by a fact that compares with BitsAvailableForWrite / cap
				guarded := false
				for _, ft := range factsAt(f, b) {
					if derivesFrom(ft.Cond, func(v ssa.Value) bool {
						if cc := callOf(v); cc != nil && strings.HasSuffix(callQName(&cc.Call), "BitsAvailableForWrite") {
							return true
						}
						if u, ok := v.(*ssa.UnOp); ok {
							if of, ok := ownerField(u.X); ok && of == "boc.BitString.cap" {
								return true
							}
						}
						return false
					}, false) {
						guarded = true
					}
				}
				c.check(guarded, R, name+" fast path is capacity-checked", cl.Pos(), "the bulk copy into buf is dominated by a comparison with the remaining capacity", name+": bulk copy into the buffer is not dominated by a capacity comparison")
			}
		})
		_ = fast
	}
}

// availabilityGuards: in every exported reader that advances the cursor or calls an unchecked
// helper, those instructions are dominated by the passing edge of a guard whose failing edge
// returns ErrNotEnoughBits.
func (c *Ctx) availabilityGuards() {
	const R = "E8.availability"
	p := c.pkg("boc")
	if p == nil {
		return
	}
	named := p.Types.Scope().Lookup("BitString").Type().(*types.Named)
	for i := 0; i < named.NumMethods(); i++ {
		m := named.Method(i)
		if !m.Exported() {
			continue
		}
		f := c.Prog.FuncValue(m)
		if f == nil || len(f.Blocks) == 0 {
			continue
		}
		if !(strings.HasPrefix(m.Name(), "Read") || m.Name() == "Skip" || strings.HasPrefix(m.Name(), "Pick")) || m.Name() == "ReadRemainingBits" {
			continue
		}
		// sensitive instructions: stores that INCREASE rCursor, calls to mustReadBit/mustGetBit, loads from buf elements
		var sens []ssa.Instruction
		allInstrs(f, func(_ *ssa.BasicBlock, in ssa.Instruction) {
			switch x := in.(type) {
			case *ssa.Store:
				if of, ok := ownerField(x.Addr); ok && of == "boc.BitString.rCursor" {
					if bo, ok := x.Val.(*ssa.BinOp); ok && bo.Op == token.ADD {
						sens = append(sens, in)
					}
				}
			case *ssa.Call:
				q := callQName(&x.Call)
				if q == bocPath+".BitString.mustReadBit" || q == bocPath+".BitString.mustGetBit" {
					sens = append(sens, in)
				}
			case *ssa.IndexAddr:
				if ld, ok := x.X.(*ssa.UnOp); ok {
					if of, ok := ownerField(ld.X); ok && of == "boc.BitString.buf" {
						sens = append(sens, in)
					}
				}
			case *ssa.Slice:
				if ld, ok := x.X.(*ssa.UnOp); ok {
					if of, ok := ownerField(ld.X); ok && of == "boc.BitString.buf" {
						sens = append(sens, in)
					}
				}
			}
		})
		key := "BitString." + m.Name() + " touches the buffer only behind the availability check"
		if len(sens) == 0 {
			// delegating reader: must call another checked reader
			c.ok(R, "BitString."+m.Name()+" delegates", f.Pos(), "no direct buffer access or cursor advance: delegates to checked readers")
			continue
		}
		// guard edges: Ifs whose one successor returns ErrNotEnoughBits
		cut := map[edge]bool{}
		ng := 0
		var needs []ssa.Value // the amounts the availability guards ask for
		for _, b := range f.Blocks {
			ifi := lastIf(b)
			if ifi == nil {
				continue
			}
			for k, s := range b.Succs {
				if returnsSentinel(s, "ErrNotEnoughBits") {
					// the guard must compare the available bits
					if derivesFrom(ifi.Cond, func(v ssa.Value) bool {
						if cc := callOf(v); cc != nil && strings.HasSuffix(callQName(&cc.Call), "BitsAvailableForRead") {
							return true
						}
						return false
					}, false) {
						cut[edge{b, 1 - k}] = true
						ng++
						// exactness: the guard refuses exactly when fewer bits are left than asked for; a read
						// (skip, peek) of precisely the remaining bits succeeds - "an ideal bit list"
						if bo, ok := ifi.Cond.(*ssa.BinOp); ok {
							isAvail := func(v ssa.Value) bool {
								cc := callOf(stripConv(v))
								return cc != nil && strings.HasSuffix(callQName(&cc.Call), "BitsAvailableForRead")
							}
							rel := bo.Op
							switch {
							case isAvail(bo.X) && !isAvail(bo.Y):
							case isAvail(bo.Y) && !isAvail(bo.X):
								rel = map[token.Token]token.Token{token.LSS: token.GTR, token.GTR: token.LSS, token.LEQ: token.GEQ, token.GEQ: token.LEQ}[rel]
							default:
								rel = token.ILLEGAL
							}
							if k == 1 && rel != token.ILLEGAL { // the error is on the false edge
								rel = map[token.Token]token.Token{token.LSS: token.GEQ, token.GTR: token.LEQ, token.LEQ: token.GTR, token.GEQ: token.LSS}[rel]
							}
							if rel != token.ILLEGAL {
								if isAvail(bo.X) {
									needs = append(needs, bo.Y)
								} else {
									needs = append(needs, bo.X)
								}
								c.check(rel == token.LSS, "E8.availability-exact", "BitString."+m.Name()+" refuses only when fewer bits are left than requested", bo.Pos(), "error edge taken for available < requested", "BitString."+m.Name()+": the availability guard fails for 'available "+rel.String()+" requested'; it must fail exactly for 'available < requested' - as written, reading (skipping, peeking) exactly the bits that are left is refused although they were written")
							}
						}
					}
				}
			}
		}
		if ng == 0 {
			c.bad(R, key, f.Pos(), "BitString."+m.Name()+" reads the buffer or advances the cursor but has no guard comparing BitsAvailableForRead() whose failing edge returns ErrNotEnoughBits")
			continue
		}
		// cursor accounting: a reader that advances the cursor itself advances it by exactly the amount
		// its availability guard asked for (reads 8 bits - moves 8 bits)
		if len(needs) > 0 {
			for _, in := range sens {
				st, ok := in.(*ssa.Store)
				if !ok {
					continue
				}
				bo := st.Val.(*ssa.BinOp)
				d := bo.Y
				if _, isLoad := stripConv(bo.Y).(*ssa.UnOp); isLoad {
					d = bo.X
				}
				same := false
				for _, n := range needs {
					if n == d || shape(n, 4) == shape(d, 4) {
						same = true
					}
					if k1, ok1 := constInt(n); ok1 {
						if k2, ok2 := constInt(d); ok2 && k1 == k2 {
							same = true
						}
					}
				}
				c.check(same, "E8.cursor-accounting", "BitString."+m.Name()+" advances the cursor by the amount it checked", st.Pos(), "rCursor += "+shape(d, 3), "BitString."+m.Name()+" checks that "+shape(needs[0], 3)+" bits are available but advances the read cursor by "+shape(d, 3)+": the next read starts at the wrong bit")
			}
		}
		reach := reachableWithout(f, cut)
		var off []string
		for _, in := range sens {
			if reach[in.Block()] {
				off = append(off, c.rel(in.Pos()))
			}
		}
		c.check(len(off) == 0, R, key, f.Pos(), fmt.Sprintf("%d sensitive instruction(s) unreachable once the passing edge(s) of %d availability guard(s) are cut", len(sens), ng),
			"BitString."+m.Name()+" can reach a buffer access / cursor advance without passing the availability check: "+strings.Join(off, ", "))
	}
}

func returnsSentinel(b *ssa.BasicBlock, name string) bool {
	if len(b.Instrs) == 0 {
		return false
	}
	r, ok := b.Instrs[len(b.Instrs)-1].(*ssa.Return)
	if !ok || len(r.Results) == 0 {
		return false
	}
	last := retVal(r, len(r.Results)-1)
	if u, ok := last.(*ssa.UnOp); ok {
		if g, ok := u.X.(*ssa.Global); ok && g.Name() == name {
			return true
		}
	}
	return false
}

// writeBitClears: WriteBit sets the bit for true AND clears it for false (buffers may hold stale
// bits beyond len, e.g. after the byte-aligned fast path of ReadBits).
func (c *Ctx) writeBitClears() {
	const R = "E8.capacity"
	f := c.mustFn(R, "boc", "BitString.WriteBit")
	if f == nil {
		return
	}
	on := callsTo(f, bocPath+".BitString.On")
	off := callsTo(f, bocPath+".BitString.Off")
	okv := len(on) == 1 && len(off) == 1
	if okv {
		// on the val==true edge On, on the other edge Off
		var ifb *ssa.BasicBlock
		for _, b := range f.Blocks {
			if ifi := lastIf(b); ifi != nil && ifi.Cond == ssa.Value(f.Params[1]) {
				ifb = b
			}
		}
		okv = ifb != nil && edgeDominates(f, edge{ifb, 0}, on[0].Block()) && edgeDominates(f, edge{ifb, 1}, off[0].Block())
	}
	how := "val -> On(len), !val -> Off(len): a written 0 never depends on the previous buffer content"
	if !okv {
		// not clearing is sound exactly when no buffer can hold a 1 after its len
		if tz, _ := c.tailZeroStatus(); tz {
			okv = true
			how = "WriteBit does not clear explicitly; every producer of BitString buffers keeps the bits after len zero (E10.tail-zero), so a written 0 is already there"
		}
	}
	c.check(okv, R, "a written 0 bit does not depend on stale buffer content", f.Pos(), how, "WriteBit does not clear the bit when writing 0 and not every producer of BitString buffers keeps the bits after len zero: stale bits leak into the written data")
}

// cellForwarders: every Cell method whose body is a single call on c.bits forwards to the method
// of the same name with its parameters in order.
func (c *Ctx) cellForwarders() {
	const R = "E12.forwarders"
	p := c.pkg("boc")
	if p == nil {
		return
	}
	named := p.Types.Scope().Lookup("Cell").Type().(*types.Named)
	alias := map[string]string{"BitSize": "GetWriteCursor", "getBuffer": "Buffer", "ResetCounters": "ResetCounter", "setTopUppedArray": "SetTopUppedArray"}
	for i := 0; i < named.NumMethods(); i++ {
		m := named.Method(i)
		f := c.Prog.FuncValue(m)
		if f == nil || len(f.Blocks) != 1 {
			continue
		}
		var calls []*ssa.Call
		allInstrs(f, func(_ *ssa.BasicBlock, in ssa.Instruction) {
			if cl, ok := in.(*ssa.Call); ok {
				calls = append(calls, cl)
			}
		})
		if len(calls) != 1 {
			continue
		}
		q := callQName(&calls[0].Call)
		if !strings.HasPrefix(q, bocPath+".BitString.") {
			continue
		}
		callee := strings.TrimPrefix(q, bocPath+".BitString.")
		want := m.Name()
		if a, ok := alias[want]; ok {
			want = a
		}
		okv := callee == want
		// arguments: receiver's bits field, then the parameters in order
		args := calls[0].Call.Args
		if okv && len(args) == len(f.Params) {
			for k := 1; k < len(args); k++ {
				if args[k] != ssa.Value(f.Params[k]) {
					okv = false
				}
			}
		} else {
			okv = false
		}
		if okv {
			if of, ok := ownerField(args[0]); !ok || of != "boc.Cell.bits" {
				okv = false
			}
		}
		c.check(okv, R, "Cell."+m.Name()+" forwards to BitString."+want, f.Pos(), "same primitive, same arguments in the same order", fmt.Sprintf("Cell.%s forwards to BitString.%s with different arguments or a different primitive", m.Name(), callee))
	}
}

// widthGuards: ReadUint / ReadInt reject bitLen > 64 before anything else.
func (c *Ctx) widthGuards() {
	const R = "E8.availability"
	for _, name := range []string{"BitString.ReadUint", "BitString.ReadInt"} {
		f := c.mustFn(R, "boc", name)
		if f == nil {
			continue
		}
		okv := false
		if ifi := lastIf(f.Blocks[0]); ifi != nil {
			if bo, ok := ifi.Cond.(*ssa.BinOp); ok && bo.Op == token.GTR && bo.X == ssa.Value(f.Params[1]) {
				if k, ok := constInt(bo.Y); ok && k == 64 && rejects(f, f.Blocks[0]) {
					okv = true
				}
			}
		}
		c.check(okv, R, name+" rejects widths above 64 first", f.Pos(), "the entry block tests bitLen > 64 and returns an error", name+" no longer rejects bitLen > 64 before touching the buffer (shift amounts above 63 produce garbage)")
	}
}

// cursorPairing: CopyRemaining restores rCursor and refCursor; the references it copies come
// through the read cursor (NextRef); PickUint restores what ReadUint consumed.
func (c *Ctx) cursorPairing() {
	const R = "E10.cursor-pairing"
	f := c.mustFn(R, "boc", "Cell.CopyRemaining")
	if f != nil {
		for _, fld := range []string{"boc.BitString.rCursor", "boc.Cell.refCursor"} {
			// a load of the field early, and a store of that loaded value on every path to the non-nil return
			var saved ssa.Value
			var restores []*ssa.Store
			allInstrs(f, func(_ *ssa.BasicBlock, in ssa.Instruction) {
				switch x := in.(type) {
				case *ssa.UnOp:
					if of, ok := ownerField(x.X); ok && of == fld && saved == nil {
						saved = x
					}
				case *ssa.Store:
					if of, ok := ownerField(x.Addr); ok && of == fld && saved != nil && x.Val == saved {
						restores = append(restores, x)
					}
				}
			})
			okv := saved != nil && len(restores) > 0
			if okv {
				// every return of a non-nil copy is dominated by a restore
				for _, r := range returnsOf(f) {
					if isNilConst(retVal(r, 0)) {
						continue
					}
					dom := false
					for _, st := range restores {
						if st.Block().Dominates(r.Block()) {
							dom = true
						}
					}
					if !dom {
						okv = false
					}
				}
			}
			c.check(okv, R, "CopyRemaining restores "+fld, f.Pos(), "the cursor saved at entry is stored back before the copy is returned", "CopyRemaining no longer restores "+fld+" after reading the remaining data")
		}
		// references added to the copy derive from NextRef (i.e. honour the read cursor)
		okRefs := false
		allInstrs(f, func(_ *ssa.BasicBlock, in ssa.Instruction) {
			if cl, ok := in.(*ssa.Call); ok && callQName(&cl.Call) == bocPath+".Cell.AddRef" {
				if derivesFrom(cl.Call.Args[1], callResult(bocPath+".Cell.NextRef"), false) {
					okRefs = true
				}
			}
		})
		direct := false
		allInstrs(f, func(_ *ssa.BasicBlock, in ssa.Instruction) {
			if st, ok := in.(*ssa.Store); ok {
				if ia, ok := st.Addr.(*ssa.IndexAddr); ok {
					if of, ok := ownerField(ia.X); ok && of == "boc.Cell.refs" {
						if !derivesFrom(ia.Index, fieldLoadOf("boc.Cell.refCursor"), false) && !derivesFrom(st.Val, func(v ssa.Value) bool {
							if ia2, ok := v.(*ssa.IndexAddr); ok {
								return derivesFrom(ia2.Index, fieldLoadOf("boc.Cell.refCursor"), false)
							}
							return false
						}, false) {
							direct = true
						}
					}
				}
			}
		})
		c.check(okRefs && !direct, R, "CopyRemaining copies the references that remain to be read", f.Pos(), "the copy's references come from NextRef, i.e. start at the read cursor", "CopyRemaining copies references without going through the read cursor: after NextRef was called on the source the copy receives the wrong children")
	}
	if f := c.mustFn(R, "boc", "BitString.PickUint"); f != nil {
		okv := false
		allInstrs(f, func(_ *ssa.BasicBlock, in ssa.Instruction) {
			if st, ok := in.(*ssa.Store); ok {
				if of, ok := ownerField(st.Addr); ok && of == "boc.BitString.rCursor" {
					if bo, ok := st.Val.(*ssa.BinOp); ok && bo.Op == token.SUB && bo.Y == ssa.Value(f.Params[1]) {
						okv = true
					}
				}
			}
		})
		c.check(okv, R, "PickUint restores the cursor", f.Pos(), "rCursor -= bitLen after the read", "PickUint no longer moves the cursor back by the number of bits read")
	}
	c.floor(R, 4)
}

func fieldLoadOf(of string) srcPred {
	return func(v ssa.Value) bool {
		u, ok := v.(*ssa.UnOp)
		if !ok {
			return false
		}
		o, ok := ownerField(u.X)
		return ok && o == of
	}
}

// bitTables (E11): constant tables against their defining formulas.
func (c *Ctx) bitTables() {
	const R = "E11.tables"
	p := c.pkg("boc")
	if p == nil {
		return
	}
	// tab64 + multiplier in minBitsRequired: classic de Bruijn log2: for v = 2^(k+1)-1 (all ones up to bit k)
	// index = (v * M) >> 58 must map to k.
	f := c.mustFn(R, "boc", "minBitsRequired")
	// the table is whichever package-level array the function indexes (its name is not part of the property)
	tabName := "tab64"
	if f != nil {
		allInstrs(f, func(_ *ssa.BasicBlock, in ssa.Instruction) {
			if ia, ok := in.(*ssa.IndexAddr); ok {
				if g, ok := ia.X.(*ssa.Global); ok {
					tabName = g.Name()
				}
			}
		})
	}
	tab := c.arrayLiteralInts("boc", tabName)
	// the bit length taken from the standard library instead of the hand-written de Bruijn code: the function
	// returns int(bits.Len64(x)) (or Len) unchanged, and there is no table to check
	if f != nil && stdBitLen(f) {
		c.ok(R, "tab64 is the de Bruijn log2 table of its multiplier", f.Pos(), "minBitsRequired returns math/bits.Len64 of its argument: no table, no multiplier")
		goto suffix
	}
	if f != nil && len(tab) == 64 {
		var mult uint64
		var shift int64 = -1
		allInstrs(f, func(_ *ssa.BasicBlock, in ssa.Instruction) {
			if bo, ok := in.(*ssa.BinOp); ok {
				if bo.Op == token.MUL {
					for _, o := range []ssa.Value{bo.X, bo.Y} {
						if cst, ok := o.(*ssa.Const); ok && cst.Value != nil {
							if u, ok := constUint64(cst); ok && u > 1<<32 {
								mult = u
							}
						}
					}
				}
				if bo.Op == token.SHR {
					if k, ok := constInt(bo.Y); ok && k >= 50 {
						shift = k
					}
				}
			}
		})
		okv := mult != 0 && shift == 58
		if okv {
			for k := 0; k < 64; k++ {
				var v uint64 = ^uint64(0)
				if k < 63 {
					v = (uint64(1) << uint(k+1)) - 1
				}
				// the function first smears the value (v |= v>>1 ...), so inputs reduce to all-ones patterns;
				// classic variant: tab64[((v - (v>>1)) * M) >> 58] i.e. isolates the top bit
				top := v - (v >> 1)
				idx1 := (v * mult) >> 58
				idx2 := (top * mult) >> 58
				if tab[idx1] != int64(k) && tab[idx2] != int64(k) {
					okv = false
				}
			}
		}
		c.check(okv, R, "tab64 is the de Bruijn log2 table of its multiplier", f.Pos(), fmt.Sprintf("for k = 0..63, tab64[(pattern_k * %#x) >> 58] == k", mult), "tab64 / the de Bruijn multiplier in minBitsRequired do not implement floor(log2): some bit length is computed wrongly (WriteLimUint/ReadLimUint width)")
	} else {
		c.bad(R, "tab64 is the de Bruijn log2 table of its multiplier", token.NoPos, fmt.Sprintf("tab64 literal not found (len %d)", len(tab)))
	}
suffix:
	// suffixToBits: "D_" -> bits b such that hex digit D = b followed by 1 and zeros, padded to 4 bits
	m := c.mapLiteralStrings("boc", "suffixToBits")
	okm := len(m) > 0
	n := 0
	for k, v := range m {
		n++
		if len(k) != 2 || k[1] != '_' {
			okm = false
			continue
		}
		var d int
		if _, err := fmt.Sscanf(strings.ToLower(k[:1]), "%x", &d); err != nil {
			okm = false
			continue
		}
		bits := fmt.Sprintf("%04b", d)
		// strip the completion tag: the last '1' and the zeros after it
		j := strings.LastIndex(bits, "1")
		if j < 0 {
			okm = false
			continue
		}
		if bits[:j] != v {
			okm = false
		}
	}
	c.check(okm && n >= 15, R, "suffixToBits equals the completion-tag rule", token.NoPos, fmt.Sprintf("%d entries: digit D_ -> bits of D before its last 1", n), "suffixToBits has an entry that does not follow the Fift completion-tag rule (digit = data bits, 1, zero padding)")
	// hexToInt: three ranges '0'-'9', 'a'-'f', 'A'-'F' with offsets 0, 10, 10
	if f := c.mustFn(R, "boc", "hexToInt"); f != nil {
		consts := map[int64]bool{}
		allInstrs(f, func(_ *ssa.BasicBlock, in ssa.Instruction) {
			if bo, ok := in.(*ssa.BinOp); ok {
				for _, o := range []ssa.Value{bo.X, bo.Y} {
					if k, ok := constInt(o); ok {
						consts[k] = true
					}
				}
			}
		})
		okh := consts['0'] && consts['9'] && consts['a'] && consts['f'] && consts['A'] && consts['F'] && consts[10]
		c.check(okh, R, "hexToInt covers 0-9 a-f A-F", f.Pos(), "range bounds and the +10 offset present", "hexToInt no longer maps the three hex digit ranges with the +10 offset for letters")
	}
}

func constUint64(c *ssa.Const) (uint64, bool) {
	if c.Value == nil {
		return 0, false
	}
	s := c.Value.ExactString()
	var u uint64
	if _, err := fmt.Sscanf(s, "%d", &u); err == nil {
		return u, true
	}
	return 0, false
}

// arrayLiteralInts reads a package-level array/slice literal of integers from the syntax.
func (c *Ctx) arrayLiteralInts(rel, name string) []int64 {
	p := c.pkg(rel)
	if p == nil {
		return nil
	}
	var out []int64
	for _, f := range p.Syntax {
		for _, d := range f.Decls {
			out = append(out, literalInts(p, d, name)...)
		}
	}
	return out
}

// limUnaryPairs: WriteLimUint/ReadLimUint derive their width from the same function of the
// same bound; WriteUnary emits n ones then a zero, ReadUnary consumes ones up to a zero.
func (c *Ctx) limUnaryPairs() {
	const R = "E5.primitive-pairs"
	w, r := c.mustFn(R, "boc", "BitString.WriteLimUint"), c.mustFn(R, "boc", "BitString.ReadLimUint")
	if w != nil && r != nil {
		wf, rf := widthFuncOf(w, "WriteUint", 2), widthFuncOf(r, "ReadUint", 1)
		c.check(wf != "" && wf == rf, R, "LimUint width function agrees", w.Pos(), "both sides compute the width as "+wf, fmt.Sprintf("WriteLimUint derives its width as %q, ReadLimUint as %q: bounded integers are written and read with different widths", wf, rf))
	}
	if wu := c.mustFn(R, "boc", "BitString.WriteUnary"); wu != nil {
		ones, zeros := 0, 0
		for _, cl := range callsTo(wu, bocPath+".BitString.On") {
			_ = cl
			ones++
		}
		for _, cl := range callsTo(wu, bocPath+".BitString.WriteBit") {
			if b, ok := constBool(cl.Call.Args[1]); ok {
				if b {
					ones++
				} else {
					zeros++
				}
			}
		}
		c.check(ones >= 1 && zeros == 1, R, "WriteUnary emits ones then a single zero", wu.Pos(), "a loop writing 1 and one terminating 0", fmt.Sprintf("WriteUnary writes %d constant one-sites and %d zero-sites: the unary form is n ones followed by one zero", ones, zeros))
	}
	c.floor(R, 2)
}

// widthFuncOf returns the shape of the width argument passed to callee in f.
func widthFuncOf(f *ssa.Function, callee string, argIdx int) string {
	for _, cl := range callsTo(f, bocPath+".BitString."+callee) {
		if argIdx < len(cl.Call.Args) {
			return shape(cl.Call.Args[argIdx], 3)
		}
	}
	return ""
}

// ceilBytesOf recognises the ways of computing "bytes needed for x bits": ((x+7)&-8)/8, (x+7)/8,
// (x+7)>>3, x/8+1, x>>3+1. Returns x. (A plain x/8 or x>>3 is the floor and is not accepted.)
func ceilBytesOf(v ssa.Value) (ssa.Value, bool) {
	bo, ok := v.(*ssa.BinOp)
	if !ok {
		return nil, false
	}
	isK := func(x ssa.Value, k int64) bool { kk, ok := constInt(x); return ok && kk == k }
	div8 := func(b *ssa.BinOp) bool {
		return (b.Op == token.QUO && isK(b.Y, 8)) || (b.Op == token.SHR && isK(b.Y, 3))
	}
	plus7 := func(x ssa.Value) (ssa.Value, bool) {
		a, ok := x.(*ssa.BinOp)
		if ok && a.Op == token.ADD && isK(a.Y, 7) {
			return a.X, true
		}
		return nil, false
	}
	if div8(bo) {
		// (x+7)/8
		if x, ok := plus7(bo.X); ok {
			return x, true
		}
		// ((x+7)&-8)/8
		if a, ok := bo.X.(*ssa.BinOp); ok && a.Op == token.AND && isK(a.Y, -8) {
			if x, ok := plus7(a.X); ok {
				return x, true
			}
		}
		return nil, false
	}
	// x/8 + 1
	if bo.Op == token.ADD && isK(bo.Y, 1) {
		if a, ok := bo.X.(*ssa.BinOp); ok && div8(a) {
			return a.X, true
		}
	}
	return nil, false
}

// bufferSizing: the design invariant 8*len(buf) >= cap is established by every function that sizes
// a BitString buffer from a bit count: the byte count is a ceiling form of the bit count that becomes
// (or is added to) cap. Append grows by at least the bits WriteBitString is going to write.
func (c *Ctx) bufferSizing() {
	const R = "E10.buffer-sizing"
	if f := c.mustFn(R, "boc", "NewBitString"); f != nil {
		okv := false
		for _, m := range literalFields(f, "BitString") {
			if len(m["buf"]) == 1 && len(m["cap"]) == 1 {
				if mk, ok := m["buf"][0].(*ssa.MakeSlice); ok {
					if x, ok := ceilBytesOf(mk.Len); ok {
						okv = x == m["cap"][0]
					}
				}
			}
		}
		c.check(okv, R, "NewBitString allocates ceil(cap/8) bytes", f.Pos(), "buf = make(ceil(bitLen/8)), cap = bitLen", "NewBitString no longer allocates at least ceil(bitLen/8) bytes for capacity bitLen: a write within capacity can index past the buffer")
	}
	if f := c.mustFn(R, "boc", "BitString.Grow"); f != nil {
		// cap' = cap + bitLen ; appended bytes n with 8n >= bitLen (n = ceil form of bitLen), or
		// n = ceil(cap') - len(buf)
		var added ssa.Value
		for _, st := range fieldStores(f, "cap") {
			if bo, ok := st.Val.(*ssa.BinOp); ok && bo.Op == token.ADD {
				added = bo.Y
			}
		}
		okv := false
		desc := "?"
		allInstrs(f, func(_ *ssa.BasicBlock, in ssa.Instruction) {
			mk, ok := in.(*ssa.MakeSlice)
			if !ok {
				return
			}
			desc = shape(mk.Len, 4)
			if x, ok := ceilBytesOf(mk.Len); ok && added != nil && x == added {
				okv = true
				return
			}
			if bo, ok := mk.Len.(*ssa.BinOp); ok && bo.Op == token.SUB {
				if x, ok := ceilBytesOf(bo.X); ok {
					_, n, isF := fieldOfLoad(x)
					if cl := callOf(bo.Y); isF && n == "cap" && cl != nil {
						if bi, ok := cl.Call.Value.(*ssa.Builtin); ok && bi.Name() == "len" {
							okv = true
						}
					}
				}
			}
		})
		c.check(okv && added != nil, R, "Grow appends at least ceil(bitLen/8) bytes for bitLen more bits of capacity", f.Pos(), "append(make(bitLen/8+1)); cap += bitLen", "BitString.Grow adds bitLen to cap but appends "+desc+" bytes, which is not a ceiling of the bits added (nor ceil(new cap) - len(buf)): 8*len(buf) can fall below cap and the next write within capacity indexes past the buffer")
	}
	if f := c.mustFn(R, "boc", "BitString.Append"); f != nil {
		var need ssa.Value
		for _, cl := range callsTo(f, bocPath+".BitString.Grow") {
			need = cl.Call.Args[1]
		}
		okv := false
		got := "?"
		if bo, ok := need.(*ssa.BinOp); ok && bo.Op == token.SUB {
			_, n, isF := fieldOfLoad(bo.X)
			cl := callOf(bo.Y)
			got = shape(need, 3)
			okv = isF && n == "len" && strings.Join(leaves(bo.X), ",") == "#1.len" && cl != nil && callQName(&cl.Call) == bocPath+".BitString.BitsAvailableForWrite"
		}
		// WriteBitString writes bs.len bits from position 0
		okW := false
		if g := c.mustFn(R, "boc", "BitString.WriteBitString"); g != nil {
			reset := false
			for _, st := range fieldStores(g, "rCursor") {
				if k, ok := constInt(st.Val); ok && k == 0 {
					reset = true
				}
			}
			bound := false
			for _, b := range g.Blocks {
				if iff := lastIf(b); iff != nil && inLoop(b) {
					if bo, ok := iff.Cond.(*ssa.BinOp); ok && bo.Op == token.LSS {
						if _, n, ok := fieldOfLoad(bo.Y); ok && n == "len" {
							bound = true
						}
					}
				}
			}
			okW = reset && bound
		}
		c.check(okv && okW, R, "Append grows by the number of bits WriteBitString will write", f.Pos(), "Grow(b.len - free) ; WriteBitString writes b.len bits from 0", "BitString.Append grows the receiver by "+got+" while WriteBitString rewinds its argument and writes all of its len bits: a partly read argument is truncated silently (the write error is discarded)")
	}
	c.floor(R, 3)
}

var bigMutators = map[string]bool{"Add": true, "Sub": true, "Mul": true, "Quo": true, "Rem": true, "Div": true, "Mod": true, "Exp": true,
	"Lsh": true, "Rsh": true, "Neg": true, "Abs": true, "Not": true, "And": true, "Or": true, "Xor": true, "AndNot": true,
	"Set": true, "SetInt64": true, "SetUint64": true, "SetBytes": true, "SetBit": true, "SetBits": true, "SetString": true,
	"DivMod": true, "QuoRem": true, "GCD": true, "ModInverse": true, "Sqrt": true, "FillBytes": false}

// writersDoNotMutateInput: a big integer handed to a writer is the caller's value (the tlb integer
// types pass a shallow copy that shares its digits with the user's value). math/big methods store
// their result in the receiver, so the receiver of every such call in the writers is a fresh value,
// never the parameter.
func (c *Ctx) writersDoNotMutateInput() {
	const R = "E10.input-immutable"
	n := 0
	for _, name := range []string{"BitString.WriteBigInt", "BitString.WriteBigUint", "Cell.WriteBigInt", "Cell.WriteBigUint"} {
		f := c.mustFn(R, "boc", name)
		if f == nil {
			continue
		}
		bad := ""
		for _, ci := range callsIn(f) {
			fn := calleeFunc(ci.Common())
			if fn == nil || fn.Pkg() == nil || fn.Pkg().Path() != "math/big" || !bigMutators[fn.Name()] {
				continue
			}
			if len(ci.Common().Args) == 0 {
				continue
			}
			recv := ci.Common().Args[0]
			for _, p := range f.Params[1:] {
				if recv == ssa.Value(p) || derivesFrom(recv, func(v ssa.Value) bool { return v == ssa.Value(p) }, false) {
					if _, isPtr := p.Type().(*types.Pointer); isPtr {
						bad = fmt.Sprintf("big.Int.%s is called with the parameter %s as its receiver at %s", fn.Name(), paramPos(p), c.rel(ci.Pos()))
					}
				}
			}
		}
		n++
		c.check(bad == "", R, name+" does not write into the big integer it is given", f.Pos(), "results are computed into fresh values", name+": "+bad+": the caller's value is overwritten (encoding a negative Int257 twice writes two different numbers)")
	}
	c.floor(R, 4)
	_ = n
}

// stdBitLen: every return of f is (a conversion of) math/bits.Len64 / Len of (a conversion of) its parameter.
func stdBitLen(f *ssa.Function) bool {
	rets := returnsOf(f)
	if len(rets) == 0 || len(f.Params) != 1 {
		return false
	}
	for _, r := range rets {
		cl := callOf(stripConv(retVal(r, 0)))
		if cl == nil {
			return false
		}
		q := callQName(&cl.Call)
		if q != "math/bits.Len64" && q != "math/bits.Len" {
			return false
		}
		if stripConv(cl.Call.Args[0]) != ssa.Value(f.Params[0]) {
			return false
		}
	}
	return true
}
