package main

import (
	"fmt"
	"go/token"
	"go/types"
	"path/filepath"
	"strings"

	"golang.org/x/tools/go/ssa"
)

func init() { register("C12", propC12) }

// guarded-by table, confirmed by reading ("mu protects all fields below" in connection.go;
// queriesMutex/connMutex by their only uses in client.go).
var guardedLiteclient = map[string]string{
	"liteclient.Connection.status":       "liteclient.Connection.mu",
	"liteclient.Connection.econn":        "liteclient.Connection.mu",
	"liteclient.Connection.pings":        "liteclient.Connection.mu",
	"liteclient.Connection.avgRoundTrip": "liteclient.Connection.mu",
	"liteclient.Connection.nonce":        "liteclient.Connection.mu",
	"liteclient.Client.queries":          "liteclient.Client.queriesMutex",
	"liteclient.Client.nextConn":         "liteclient.Client.connMutex",
}

// liteGuarded: the guarded-by table with the reply-channel map of Client and its mutex named by role
// (the map-of-channels field; the mutex held where the registering function inserts into it), so that a
// rename of these unexported fields leaves the table valid.
func (c *Ctx) liteGuarded(la *lockAnalysis) map[string]string {
	out := map[string]string{}
	for k, v := range guardedLiteclient {
		out[k] = v
	}
	q, mu := c.liteQueryMap(la)
	if q != "" && q != "liteclient.Client.queries" {
		delete(out, "liteclient.Client.queries")
		out[q] = mu
	}
	return out
}

// liteQueryMap: the reply-channel map field of Client and the mutex that is held at its insertion site.
func (c *Ctx) liteQueryMap(la *lockAnalysis) (field, mutex string) {
	field = c.fieldByType("liteclient", "Client", isMapOfChan)
	if field == "" {
		return "liteclient.Client.queries", "liteclient.Client.queriesMutex"
	}
	mutex = "liteclient.Client.queriesMutex"
	for _, f := range c.moduleFuncs("liteclient") {
		allInstrs(f, func(_ *ssa.BasicBlock, in ssa.Instruction) {
			if mu, ok := in.(*ssa.MapUpdate); ok {
				if ld, ok := mu.Map.(*ssa.UnOp); ok {
					if of, ok := ownerField(ld.X); ok && of == field {
						if h := heldAt(la, mu); h != "" {
							mutex = h
						}
					}
				}
			}
		})
	}
	return
}

func propC12(c *Ctx) propInfo {
	c.errflow(excC12E2, "liteclient")
	c.queryFraming()
	c.wireSizes("liteclient")
	c.connectionDispatch()
	c.handTagDispatch()
	c.loopVarEscape("E17.loopvar-escape", "liteclient")
	c.nilContradictions("E1.P8-nil-contradiction", "liteclient")
	la := c.newLockAnalysis("liteclient")
	la.guardedBy("E9.K1-guarded-by", c.liteGuarded(la), map[string]string{
		"(*liteclient.Connection).setupEncryptedConnection read liteclient.Connection.econn":   "read by the single goroutine that performs the (re)connect; status is Connecting, so Send and other users do not touch econn until this goroutine publishes Connected",
		"(*liteclient.Connection).setupEncryptedConnection read liteclient.Connection.econn#2": "same goroutine, error path of the handshake",
		"(*liteclient.Connection).sendAuthRequest read liteclient.Connection.econn":            "called only from setupEncryptedConnection of a connection whose status is still Connecting",
		"(*liteclient.Connection).sendAuthComplete read liteclient.Connection.nonce":           "caller handleAuthResponse holds Connection.mu (lockset propagated from the only call site)",
	})
	la.pairing("E9.K2-pairing")
	la.noBlockingUnderLock("E9.K3-no-blocking-under-lock", map[string]string{})
	la.lockOrder("E9.K4-lock-order")
	la.whoMayWrite("E9.W-status-writers", "liteclient.Connection.status", map[string]string{
		"(*liteclient.Connection).setupEncryptedConnection": "publishes Connected after the encrypted connection is set up",
		"(*liteclient.Connection).reconnect":                "the only transition to Connecting; guarded by the 'already Connecting' test so that one reconnect runs at a time",
		"(*liteclient.Connection).handleAuthResponse":       "publishes Connected after authentication",
	})
	c.requestProtocol()
	c.sharedUnsafeObjects(la, "liteclient")
	c.reconnectRetry()
	c.silenceTimer()
	c.freshFrameBuffer("E9.K11-own-buffer")
	c.floor("E9.K1-guarded-by", 20)
	c.floor("E9.K2-pairing", 10)
	c.floor("E9.K5-request-protocol", 8)
	c.floor("E9.W-status-writers", 4)
	c.cipherContinuity() // a call gets its own answer only while the rx/tx streams stay in step
	return propInfo{
		explanation: "Static structural clauses of C12 (DESIGN.md §4 C12): guarded-by table for Connection and Client under a must-lockset dataflow (summaries for unexported callees), lock/unlock pairing on all return paths, no blocking operation while a lock is held, acyclic lock order, frozen writers of the connection status, and the request protocol (callback registered before send, unregistered by defer, buffered reply channel, timeout context, dispatcher removes the entry in the critical section of the lookup and sends at most once, encryptedConn.send only under Connection.mu or during the unpublished handshake). Decides these necessary conditions, not liveness, reconnect timing, goroutine growth or data races outside the table. Reconnect: every attempt has its own deadline and the retry loop ends only with a successful attempt (K9).",
		assumptions: []string{"lock identity is type based (one Connection/Client instance per function)", "sync primitives behave as documented"},
	}
}

// requestProtocol: K5 rules, roles identified by effect.
func (c *Ctx) requestProtocol() {
	const R = "E9.K5-request-protocol"
	req := c.mustFn(R, "liteclient", "Client.Request")
	disp := c.mustFn(R, "liteclient", "Client.processQueryAnswer")
	if req == nil || disp == nil {
		return
	}
	la := c.newLockAnalysis("liteclient")
	qField, qMutex := c.liteQueryMap(la)
	// roles: the callee (or the function itself) that inserts into / deletes from Client.queries
	inserts := func(f *ssa.Function) bool { return touchesMap(f, qField, true) }
	deletes := func(f *ssa.Function) bool { return touchesMap(f, qField, false) }
	var regCall, sendCall ssa.Instruction
	var unregDeferred bool
	var regResult ssa.Value
	regFn := req // the function that holds the registration (Request itself when it is written in place)
	allInstrs(req, func(_ *ssa.BasicBlock, i ssa.Instruction) {
		switch x := i.(type) {
		case *ssa.MapUpdate:
			// the registration written in place: queries[id] = ch
			if ld, ok := x.Map.(*ssa.UnOp); ok && regCall == nil {
				if of, ok := ownerField(ld.X); ok && of == qField {
					regCall, regResult = x, x.Value
				}
			}
		case *ssa.Call:
			if sc := x.Call.StaticCallee(); sc != nil {
				if inserts(sc) && regCall == nil {
					regCall, regResult = x, x
					regFn = sc
				}
				if callQName(&x.Call) == modPath+"/liteclient.Connection.Send" {
					sendCall = x
				}
			}
		case *ssa.Defer:
			if sc := x.Call.StaticCallee(); sc != nil && deletes(sc) {
				unregDeferred = true
			}
		}
	})
	c.check(regCall != nil && sendCall != nil && regCall.Block().Dominates(sendCall.Block()) && before(regCall, sendCall), R, "Request registers the callback before sending", posOf(sendCall, req),
		"the call that inserts into Client.queries dominates Connection.Send", "Request sends the query before (or without) registering its callback: a fast answer would be dropped as 'unknown query'")
	c.check(unregDeferred, R, "Request unregisters by defer", req.Pos(), "the call that deletes from Client.queries is deferred", "Request no longer defers the removal of its callback: timed-out or failed requests leak map entries")
	// reply channel made with capacity >= 1 in the registering function
	capOK := false
	if regCall != nil {
		sc := regFn
		allInstrs(sc, func(_ *ssa.BasicBlock, i ssa.Instruction) {
			if mk, ok := i.(*ssa.MakeChan); ok {
				if k, ok := constInt(mk.Size); ok && k >= 1 {
					capOK = true
				}
			}
		})
	}
	c.check(capOK, R, "reply channel is buffered", posOf(regCall, req), "the reply channel is made with capacity >= 1, so the dispatcher's single send cannot block", "the reply channel is unbuffered: the dispatcher blocks on a caller that has already timed out")
	// wait: a select over the reply channel and ctx.Done() of a WithTimeout context whose cancel is deferred
	var sel *ssa.Select
	allInstrs(req, func(_ *ssa.BasicBlock, i ssa.Instruction) {
		if s, ok := i.(*ssa.Select); ok {
			sel = s
		}
	})
	okSel := false
	if sel != nil && sel.Blocking {
		hasResp, hasDone := false, false
		for _, st := range sel.States {
			if st.Dir != 2 { // types.RecvOnly
				continue
			}
			if regResult != nil && st.Chan == regResult {
				hasResp = true
			}
			if cl, ok := st.Chan.(*ssa.Call); ok && cl.Call.IsInvoke() && cl.Call.Method.Name() == "Done" {
				if derivesFrom(cl.Call.Value, callResult("context.WithTimeout"), false) {
					hasDone = true
				}
			}
		}
		okSel = hasResp && hasDone
	}
	c.check(okSel, R, "Request waits on reply or deadline", posOf(sel, req), "blocking select over the registered reply channel and Done() of a context.WithTimeout context", "Request's wait is not a select over its reply channel and the timeout context's Done(): a lost answer would block forever")
	tmo := false
	cancelDeferred := false
	allInstrs(req, func(_ *ssa.BasicBlock, i ssa.Instruction) {
		if cl, ok := i.(*ssa.Call); ok && callQName(&cl.Call) == "context.WithTimeout" {
			if derivesFrom(cl.Call.Args[1], fieldLoad("timeout"), false) {
				tmo = true
			}
		}
		if d, ok := i.(*ssa.Defer); ok {
			if derivesFrom(d.Call.Value, callResult("context.WithTimeout"), false) {
				cancelDeferred = true
			}
		}
	})
	c.check(tmo && cancelDeferred, R, "deadline derives from Client.timeout, cancel deferred", req.Pos(), "context.WithTimeout(ctx, c.timeout) with deferred cancel", "the request deadline no longer derives from the client's timeout (or its cancel is not deferred)")
	// dispatcher: lookup and delete in the same critical section, single send after unlocking. The lookup and the
	// delete may sit in the dispatcher or in an unexported helper it calls (takeCallback(id)); the send is in the
	// dispatcher, on the channel that came out of the map.
	var lookup, del ssa.Instruction
	var sends []*ssa.Send
	for _, g := range c.helperClosure(disp, 1, func(h *ssa.Function) bool { return plainHelper(h) == nil }) {
		allInstrs(g, func(_ *ssa.BasicBlock, i ssa.Instruction) {
			switch x := i.(type) {
			case *ssa.Lookup:
				if ld, ok := x.X.(*ssa.UnOp); ok {
					if of, ok := ownerField(ld.X); ok && of == qField {
						lookup = x
					}
				}
			case *ssa.Call:
				if b, ok := x.Call.Value.(*ssa.Builtin); ok && b.Name() == "delete" {
					if ld, ok := x.Call.Args[0].(*ssa.UnOp); ok {
						if of, ok := ownerField(ld.X); ok && of == qField {
							del = x
						}
					}
				}
			case *ssa.Send:
				sends = append(sends, x)
			}
		})
	}
	sameCS := lookup != nil && del != nil && lookup.Block() == del.Block() && la.at(lookup)[qMutex] == 'W' && la.at(del)[qMutex] == 'W' && noUnlockBetween(lookup, del)
	c.check(sameCS, R, "dispatcher removes the entry in the lookup's critical section", posOf(del, disp), "lookup and delete of Client.queries[id] happen under one hold of queriesMutex", "the dispatcher no longer deletes the query entry in the same critical section as the lookup: a duplicated answer finds the entry again and its send blocks the reader goroutine forever")
	okSend := len(sends) == 1 && del != nil && len(la.at(sends[0])) == 0
	if okSend {
		if del.Parent() == sends[0].Parent() {
			okSend = del.Block().Dominates(sends[0].Block())
		} else {
			// the entry is removed inside the helper whose result carries the channel: the send, which uses that
			// result, runs after the helper returned (and released the mutex it took)
			okSend = sends[0].Parent() == disp
		}
	}
	if okSend && lookup != nil {
		okSend = derivesFrom(sends[0].Chan, func(v ssa.Value) bool { return v == lookup.(ssa.Value) }, false)
	}
	c.check(okSend, R, "dispatcher sends once, on the looked-up channel, outside the lock", posOf(firstSend(sends), disp), "exactly one send, on the channel taken from the map, after the entry was removed and the mutex released", "the dispatcher's hand-off is no longer a single send on the removed entry's channel outside the lock")
	// encryptedConn.send callers
	for _, f := range c.moduleFuncs("liteclient") {
		allInstrs(f, func(_ *ssa.BasicBlock, i ssa.Instruction) {
			cl, ok := i.(*ssa.Call)
			if !ok || callQName(&cl.Call) != modPath+"/liteclient.encryptedConn.send" {
				return
			}
			key := fnName(f) + " calls encryptedConn.send"
			ls := la.at(cl)
			switch {
			case ls["liteclient.Connection.mu"] == 'W':
				c.ok(R, key, cl.Pos(), "Connection.mu held: sends are serialised, the AES-CTR stream stays in step with the byte order on the wire")
			case fnName(f) == "(*liteclient.Connection).sendAuthRequest":
				c.exc(R, key, cl.Pos(), "handshake of a connection whose status is still Connecting: Send refuses to run until Connected is published, so no other sender exists")
			default:
				c.bad(R, key, cl.Pos(), fmt.Sprintf("encryptedConn.send called without holding Connection.mu (lockset %s): two senders can interleave XORKeyStream and Write, desynchronising the stream cipher", ls.String()))
			}
		})
	}
}

func firstSend(s []*ssa.Send) ssa.Instruction {
	if len(s) == 0 {
		return nil
	}
	return s[0]
}

func posOf(i ssa.Instruction, f *ssa.Function) token.Pos {
	if i == nil || isNilInstr(i) {
		return f.Pos()
	}
	return i.Pos()
}

func isNilInstr(i ssa.Instruction) bool {
	switch x := i.(type) {
	case *ssa.Call:
		return x == nil
	case *ssa.Select:
		return x == nil
	case *ssa.Send:
		return x == nil
	}
	return false
}

// before: a precedes b when both are in the same block (else dominance decides).
func before(a, b ssa.Instruction) bool {
	if a.Block() != b.Block() {
		return true
	}
	for _, i := range a.Block().Instrs {
		if i == a {
			return true
		}
		if i == b {
			return false
		}
	}
	return false
}

func noUnlockBetween(a, b ssa.Instruction) bool {
	in := false
	for _, i := range a.Block().Instrs {
		if i == a {
			in = true
			continue
		}
		if i == b {
			return true
		}
		if in {
			if cl, ok := i.(*ssa.Call); ok {
				if _, op, ok := lockOp(&cl.Call); ok && (op == "unlockW" || op == "unlockR") {
					return false
				}
			}
		}
	}
	return false
}

// touchesMap: f contains a MapUpdate (insert=true) or delete (insert=false) on the map stored in field.
func touchesMap(f *ssa.Function, field string, insert bool) bool {
	found := false
	allInstrs(f, func(_ *ssa.BasicBlock, i ssa.Instruction) {
		switch x := i.(type) {
		case *ssa.MapUpdate:
			if !insert {
				return
			}
			if ld, ok := x.Map.(*ssa.UnOp); ok {
				if of, ok := ownerField(ld.X); ok && of == field {
					found = true
				}
			}
		case *ssa.Call:
			if insert {
				return
			}
			if b, ok := x.Call.Value.(*ssa.Builtin); ok && b.Name() == "delete" {
				if ld, ok := x.Call.Args[0].(*ssa.UnOp); ok {
					if of, ok := ownerField(ld.X); ok && of == field {
						found = true
					}
				}
			}
		}
	})
	return found
}

// reconnectRetry (K9): the reconnect loop retries until an attempt succeeds and every attempt has
// its own deadline: the context given to setupEncryptedConnection inside the loop is either the
// background context or a deadline context created inside the loop. A deadline created once before
// the loop expires during a long outage and makes every later attempt fail at once, for ever.
func (c *Ctx) reconnectRetry() {
	const R = "E9.K9-reconnect-retry"
	f := c.mustFn(R, "liteclient", "Connection.reconnect")
	if f == nil {
		return
	}
	all := callsTo(f, modPath+"/liteclient.Connection.setupEncryptedConnection")
	// the attempts: one call inside the retry loop, possibly preceded by a first attempt in front of it
	// (err := setup(); for err != nil { ...; err = setup() })
	var calls, primes []*ssa.Call
	for _, x := range all {
		if inLoop(x.Block()) {
			calls = append(calls, x)
		} else {
			primes = append(primes, x)
		}
	}
	okPrime := len(primes) <= 1
	for _, pr := range primes {
		if len(calls) == 1 && !pr.Block().Dominates(calls[0].Block()) {
			okPrime = false
		}
	}
	if len(calls) != 1 || !okPrime {
		c.bad(R, "reconnect retries setupEncryptedConnection in a loop", f.Pos(), fmt.Sprintf("reconnect has %d setupEncryptedConnection call(s) in a retry loop; the confirmed shape is one call inside a loop", len(calls)))
		return
	}
	cl := calls[0]
	isAttempt := func(v ssa.Value) bool {
		for _, x := range all {
			if v == ssa.Value(x) {
				return true
			}
		}
		return false
	}
	okCtx := true
	why := ""
	derivesFrom(cl.Call.Args[1], func(v ssa.Value) bool {
		c2 := callOf(v)
		if c2 == nil {
			return false
		}
		switch callQName(&c2.Call) {
		case "context.WithTimeout", "context.WithDeadline", "context.WithTimeoutCause", "context.WithDeadlineCause":
			if !inLoop(c2.Block()) {
				okCtx = false
				why = "the context passed to every attempt is a deadline context created once at " + c.rel(c2.Pos()) + " before the loop"
			}
		}
		return false
	}, true)
	// ... and it is the connection's OWN context: rooted in context.Background()/TODO(), not in a
	// context somebody handed in earlier (a constructor argument kept in a field, a parameter): that
	// one is cancelled when its owner is done, and from then on every reconnect fails at once
	rooted := false
	foreign := ""
	derivesFrom(cl.Call.Args[1], func(v ssa.Value) bool {
		if c2 := callOf(v); c2 != nil {
			switch callQName(&c2.Call) {
			case "context.Background", "context.TODO":
				rooted = true
			}
		}
		if ld, ok := v.(*ssa.UnOp); ok && ld.Op == token.MUL {
			if _, fn, ok := fieldOf(ld.X); ok && strings.HasSuffix(v.Type().String(), "context.Context") {
				foreign = "the field " + fn
			}
		}
		if p, ok := v.(*ssa.Parameter); ok && strings.HasSuffix(p.Type().String(), "context.Context") {
			foreign = "the parameter " + p.Name()
		}
		return false
	}, true)
	c.check(rooted && foreign == "", R, "reconnect dials under the connection's own context", cl.Pos(), "rooted in context.Background()", "reconnect passes a context taken from "+foreign+" to setupEncryptedConnection: once the party that created that context has cancelled it (the initialisation context of the caller), every later reconnect attempt fails immediately and the connection stays in Connecting for ever")
	c.check(okCtx, R, "every reconnect attempt has its own deadline", cl.Pos(), "context.Background() or a deadline created inside the loop", "reconnect: "+why+": after that deadline every dial fails immediately and the connection never leaves Connecting")
	// the loop is left only after a successful attempt: every edge out of the loop is the nil-error edge of the call
	okExit := true
	nExit := 0
	for _, b := range f.Blocks {
		if !inLoop(b) {
			continue
		}
		for i, s := range b.Succs {
			if inLoop(s) {
				continue
			}
			nExit++
			iff := lastIf(b)
			good := false
			if iff != nil {
				if isNil, eq := nilTest(iff.Cond, nil); isNil {
					_ = eq
				}
				if bo, ok := iff.Cond.(*ssa.BinOp); ok && isNilConst(bo.Y) && derivesFrom(bo.X, isAttempt, false) {
					// err != nil: exit must be the false edge; err == nil: the true edge
					if (bo.Op == token.NEQ && i == 1) || (bo.Op == token.EQL && i == 0) {
						good = true
					}
				}
			}
			if !good {
				okExit = false
			}
		}
	}
	c.check(okExit && nExit == 1, R, "the reconnect loop ends only with a successful attempt", f.Pos(), "single exit: err == nil", fmt.Sprintf("reconnect's retry loop has %d exit edge(s), not only the successful-attempt edge: the client can give up reconnecting", nExit))
	c.floor(R, 2)
}

// silenceTimer (K10): the reader treats "nothing received for reconnectTimeout" as a dead
// connection. Every received packet - pongs and auth packets included - must restart that timer:
// either the timer channel is created afresh in every iteration (time.After inside the loop), or a
// reusable timer is Reset on every path from the select back to the select.
func (c *Ctx) silenceTimer() {
	const R = "E9.K10-silence-timer"
	f := c.mustFn(R, "liteclient", "Connection.reader")
	if f == nil {
		return
	}
	var sel *ssa.Select
	allInstrs(f, func(b *ssa.BasicBlock, in ssa.Instruction) {
		if s, ok := in.(*ssa.Select); ok && s.Blocking && inLoop(b) {
			sel = s
		}
	})
	if sel == nil {
		c.bad(R, "reader select", f.Pos(), "Connection.reader has no blocking select in a loop (anchor moved?)")
		return
	}
	okv := false
	why := "no timer case"
	for _, st := range sel.States {
		if st.Dir != types.RecvOnly {
			continue
		}
		// fresh per iteration
		if cl := callOf(st.Chan); cl != nil && callQName(&cl.Call) == "time.After" {
			if inLoop(cl.Block()) {
				okv = true
			} else {
				why = "the time.After channel is created once, outside the loop"
			}
			continue
		}
		// reusable timer: field C of a *time.Timer
		if _, n, ok := fieldOfLoad(st.Chan); ok && n == "C" {
			var timer ssa.Value
			if u, ok := st.Chan.(*ssa.UnOp); ok {
				if fa, ok := u.X.(*ssa.FieldAddr); ok {
					timer = fa.X
				}
			}
			// blocks that Reset this timer
			cut := map[*ssa.BasicBlock]bool{}
			allInstrs(f, func(b *ssa.BasicBlock, in ssa.Instruction) {
				if cl, ok := in.(*ssa.Call); ok && callQName(&cl.Call) == "time.Timer.Reset" && cl.Call.Args[0] == timer {
					cut[b] = true
				}
			})
			// from the select's successors, can we come back to the select without passing a Reset block?
			seen := map[*ssa.BasicBlock]bool{}
			var st2 []*ssa.BasicBlock
			st2 = append(st2, sel.Block().Succs...)
			back := false
			for len(st2) > 0 {
				b := st2[len(st2)-1]
				st2 = st2[:len(st2)-1]
				if seen[b] || cut[b] {
					continue
				}
				seen[b] = true
				if b == sel.Block() {
					back = true
					break
				}
				st2 = append(st2, b.Succs...)
			}
			if back {
				why = "a reusable timer is not Reset on every path back to the select (e.g. the pong / auth branches that continue)"
			} else {
				okv = true
			}
			// the module's go directive is below 1.23: Reset does not discard a tick that is already
			// waiting in the channel. Every Reset of a timer whose channel this loop reads must come
			// after `if !t.Stop() { <-t.C }` (or a non-blocking drain): a Stop call on the same timer
			// in the same block or a dominating block of the loop. Otherwise a tick that fired while
			// the reader was busy survives the Reset and the next select times out at once.
			allInstrs(f, func(b *ssa.BasicBlock, in ssa.Instruction) {
				cl, ok := in.(*ssa.Call)
				if !ok || callQName(&cl.Call) != "time.Timer.Reset" || cl.Call.Args[0] != timer || !inLoop(b) {
					return
				}
				drained := false
				allInstrs(f, func(b2 *ssa.BasicBlock, in2 ssa.Instruction) {
					c2, ok := in2.(*ssa.Call)
					if !ok || callQName(&c2.Call) != "time.Timer.Stop" || c2.Call.Args[0] != timer || !inLoop(b2) {
						return
					}
					if b2 == b || b2.Dominates(b) {
						drained = true
					}
				})
				if !drained {
					okv = false
					why = "the reusable timer is Reset without a preceding Stop-and-drain: with the module's pre-1.23 timer semantics a tick that fired while the reader was blocked stays in the channel, and the next select takes the timeout branch immediately (a healthy connection is torn down)"
				}
			})
		}
	}
	c.check(okv, R, "every iteration of the reader restarts the silence timer", sel.Pos(), "time.After(reconnectTimeout) inside the loop", "Connection.reader: "+why+": a healthy connection that only sees ping/pong traffic for reconnectTimeout is torn down and a call in flight loses its answer")
	c.floor(R, 1)
}

// freshFrameBuffer: every packet handed to a caller owns its bytes: ParsePacket reads each frame
// into a buffer allocated in that call (no pool, no package-level buffer), so a payload on its way to
// one caller cannot be overwritten by the next frame.
func (c *Ctx) freshFrameBuffer(R string) {
	f := c.mustFn(R, "liteclient", "ParsePacket")
	if f == nil {
		return
	}
	okv := true
	n := 0
	for _, rf := range callsTo(f, "io.ReadFull") {
		n++
		buf := rf.Call.Args[1]
		fresh := derivesFrom(buf, func(v ssa.Value) bool {
			switch x := v.(type) {
			case *ssa.MakeSlice:
				return true
			case *ssa.Alloc:
				_, isArr := x.Type().(*types.Pointer).Elem().Underlying().(*types.Array)
				return isArr || x.Comment == "makeslice"
			}
			return false
		}, false)
		shared := derivesFrom(buf, func(v ssa.Value) bool {
			if _, ok := v.(*ssa.Global); ok {
				return true
			}
			if cl := callOf(v); cl != nil && strings.HasPrefix(callQName(&cl.Call), "sync.Pool.") {
				return true
			}
			return false
		}, true)
		if !fresh || shared {
			okv = false
		}
	}
	c.check(okv && n == 2, R, "ParsePacket reads every frame into a buffer allocated by that call", f.Pos(), "make([]byte, …) per call", "ParsePacket reads frames into a pooled or shared buffer (or one not allocated by the call): the payload returned to one caller aliases memory the next frame is read into, so concurrent callers receive each other's bytes")
	c.floor(R, 1)
}

var excC12E2 = map[string]string{
	// (the same fallback exists on every spelling of the function: with the two tests nested the return sits at the
	// join of both paths, where no branch fact survives; written as guard clauses it sits on the failure edge)
	"liteclient.LiteapiRequestDecoder R-swallow return nil under ()#2 != nil": "by contract the function classifies a message, it does not validate it: a body the typed decoder of its tag rejects is reported as UnknownRequest with a nil error, exactly like an unknown tag",
}

// queryFraming: adnl.message.query / adnl.message.answer carry the 256-bit query id right after
// the 4-byte constructor id and the TL byte string after that. The writer (Client.Request) makes a
// 4-byte head and appends id, length, data; the reader (processQueryAnswer) must take the id from
// the same offsets and start decoding the byte string where the id ends - a one-byte shift makes
// every answer an "unknown query".
func (c *Ctx) queryFraming() {
	const R = "E7.query-framing"
	w := c.mustFn(R, "liteclient", "Client.Request")
	r := c.mustFn(R, "liteclient", "Client.processQueryAnswer")
	if w == nil || r == nil {
		return
	}
	// both sides are read with their unexported helpers inlined (E19): the payload may be assembled in Request
	// itself or in a helper it calls, in the same order
	head := int64(-1)
	idLen := int64(-1)
	for _, vi := range c.inlineView(w, 2, nil) {
		switch x := vi.in.(type) {
		case *ssa.MakeSlice:
			if k, ok := constInt(x.Len); ok && head < 0 {
				head = k
			}
		case *ssa.Slice:
			// make([]byte, K) with a constant K is an array allocation plus a slice in go/ssa
			if al, ok := x.X.(*ssa.Alloc); ok && al.Heap && al.Comment == "makeslice" && head < 0 {
				if n, ok := arrayLen(al.Type()); ok {
					head = n
				}
			}
		case *ssa.Call:
			// first append after the head: the id array
			if idLen >= 0 {
				continue
			}
			if bi, ok := x.Call.Value.(*ssa.Builtin); !ok || bi.Name() != "append" {
				continue
			}
			if sl, ok := x.Call.Args[1].(*ssa.Slice); ok {
				if n, ok := arrayLen(sl.X.Type()); ok {
					idLen = n
				}
			}
		}
	}
	lo, hi, off := int64(-1), int64(-1), int64(-1)
	for _, vi := range c.inlineView(r, 2, nil) {
		cl, ok := vi.in.(*ssa.Call)
		if !ok {
			continue
		}
		if bi, ok := cl.Call.Value.(*ssa.Builtin); ok && bi.Name() == "copy" {
			if sl, ok := cl.Call.Args[1].(*ssa.Slice); ok && sl.Low != nil && sl.High != nil {
				lo, _ = constInt(sl.Low)
				hi, _ = constInt(sl.High)
			}
		}
		if callQName(&cl.Call) == modPath+"/liteclient.decodeLength" {
			if sl, ok := cl.Call.Args[0].(*ssa.Slice); ok && sl.Low != nil {
				off, _ = constInt(sl.Low)
			}
		}
	}
	okv := head == 4 && idLen == 32 && lo == head && hi == head+idLen && off == hi
	c.check(okv, R, "query id at [4:36], byte string from 36 on both sides", w.Pos(), fmt.Sprintf("writer: %d-byte head, %d-byte id; reader: id [%d:%d], data from %d", head, idLen, lo, hi, off),
		fmt.Sprintf("the request is built as a %d-byte head followed by a %d-byte query id, but the answer's id is read from [%d:%d] and its byte string from offset %d: ids never match (every answer is an unknown query) or the data is misframed", head, idLen, lo, hi, off))
	// the long/short length forms agree between encodeLength and decodeLength (same threshold and marker)
	if e, d := c.fn("liteclient", "encodeLength"), c.fn("liteclient", "decodeLength"); e != nil && d != nil {
		eqConsts := map[*ssa.Function]map[int64]bool{}
		smallStores := map[*ssa.Function]bool{}
		consts := func(f *ssa.Function) (thr, marker, shift int64) {
			thr, marker, shift = -1, -1, -1
			eqConsts[f] = map[int64]bool{}
			allInstrs(f, func(_ *ssa.BasicBlock, in ssa.Instruction) {
				switch x := in.(type) {
				case *ssa.BinOp:
					k, ok := constInt(x.Y)
					op := x.Op
					if ok && (op == token.EQL || op == token.NEQ) && k >= 200 && k <= 255 {
						eqConsts[f][k] = true
					}
					if !ok {
						// the constant on the left: 254 > i is i < 254
						if kk, okX := constInt(x.X); okX {
							if f2, isCmp := map[token.Token]token.Token{token.LSS: token.GTR, token.GTR: token.LSS, token.LEQ: token.GEQ, token.GEQ: token.LEQ}[op]; isCmp {
								k, ok, op = kk, true, f2
							}
						}
					}
					if ok {
						switch op {
						case token.GEQ, token.LSS:
							if k >= 200 {
								thr = k
							}
						case token.GTR, token.LEQ:
							if k >= 200 {
								thr = k + 1
							}
						case token.SHL, token.SHR:
							shift = k
						}
					}
				case *ssa.Store:
					if k, ok := constInt(x.Val); ok && k >= 200 {
						if _, isIdx := x.Addr.(*ssa.IndexAddr); isIdx {
							marker = k
						}
					} else if ok && isByte(x.Val.Type()) {
						if _, isIdx := x.Addr.(*ssa.IndexAddr); isIdx {
							smallStores[f] = true
						}
					}
				}
			})
			return
		}
		et, em, es := consts(e)
		dt, dm, ds := consts(d)
		// a reader that does not patch the marker byte out and back in takes the long form for first byte 254 by
		// comparison (== 254), or by elimination (below 254 short, 255 rejected), and shifts the marker out
		if dm == -1 && !smallStores[d] && (eqConsts[d][254] || eqConsts[d][255]) {
			dm = 254
		}
		c.check(et == 254 && dt == 254 && em == 254 && dm == 254 && es == 8 && ds == 8, R, "length prefix: short below 254, else 254 | 24-bit little-endian", e.Pos(), "threshold 254, marker 254, shift 8 on both sides", fmt.Sprintf("encodeLength (threshold %d, marker %d, shift %d) and decodeLength (threshold %d, restored marker %d, shift %d) do not both implement the TL length prefix (one byte below 254, otherwise 254 followed by the 24-bit little-endian length)", et, em, es, dt, dm, ds))
	}
}

// connectionDispatch (after the mutation battery): polarity of the small protocol decisions of the
// connection, each read off the branch facts at the handler call or state change.
func (c *Ctx) connectionDispatch() {
	const R = "E12.dispatch"
	// fact helper: at block b, is "x.MagicType() == K" established (true) / refuted (false)?
	magicFact := func(f *ssa.Function, b *ssa.BasicBlock, k int64) (seen, eq bool) {
		for _, ft := range factsAt(f, b) {
			bo, ok := ft.Cond.(*ssa.BinOp)
			if !ok || (bo.Op != token.EQL && bo.Op != token.NEQ) {
				continue
			}
			cl := callOf(bo.X)
			if cl == nil || !strings.HasSuffix(callQName(&cl.Call), ".MagicType") {
				continue
			}
			if kk, ok := constInt(bo.Y); ok && kk == k {
				return true, (bo.Op == token.EQL) == ft.Truth
			}
		}
		return false, false
	}
	type disp struct{ fn, handler, magic string }
	for _, d := range []disp{
		{"Connection.reader", "Connection.processPong", "magicTCPPong"},
		{"Connection.reader", "Connection.handleAuthResponse", "magicTcpAuthentificationNonce"},
		{"Client.reader", "Client.processQueryAnswer", "magicADNLAnswer"},
	} {
		f := c.mustFn(R, "liteclient", d.fn)
		if f == nil {
			continue
		}
		k := c.constValue("liteclient", d.magic)
		calls := callsTo(f, c.qn("liteclient", d.handler))
		if len(calls) == 0 {
			// the handler is reached through an unexported helper of the reader loop (trackPong(p)): the helper's
			// call site is where the packet kind has to be established
			for _, ci := range callsIn(f) {
				if cl, ok := ci.(*ssa.Call); ok {
					if h := plainHelper(cl.Call.StaticCallee()); h != nil && len(c.callsToDeep(h, c.qn("liteclient", d.handler))) > 0 {
						calls = append(calls, cl)
					}
				}
			}
		}
		okv := len(calls) > 0 && k >= 0
		for _, cl := range calls {
			seen, eq := magicFact(f, cl.Block(), k)
			if !seen || !eq {
				okv = false
			}
		}
		c.check(okv, R, d.handler+" handles exactly "+d.magic, f.Pos(), "called on the edge where MagicType() equals the constant", fmt.Sprintf("%s is not called exactly for packets whose constructor id is %s (0x%08x): answers of that kind are dropped or foreign packets are parsed as that kind", d.handler, d.magic, uint32(k)))
	}
	// ping: 12 bytes = id LE32 | random 8; the registered id is the random part; the pong id is read
	// from the same offset and only for 12-byte packets
	if f := c.mustFn(R, "liteclient", "Connection.ping"); f != nil {
		sz := madeSizes(f)
		var offs []string
		allInstrs(f, func(_ *ssa.BasicBlock, in ssa.Instruction) {
			cl, ok := in.(*ssa.Call)
			if !ok {
				return
			}
			q := callQName(&cl.Call)
			if q == "crypto/rand.Read" || q == "encoding/binary.littleEndian.Uint64" {
				if sl, ok := cl.Call.Args[len(cl.Call.Args)-1].(*ssa.Slice); ok {
					offs = append(offs, offShape(sl.Low))
				}
			}
		})
		c.check(len(sz) == 1 && sz[0] == 12 && len(offs) == 2 && offs[0] == "4" && offs[1] == "4", R, "tcp.ping = id:4 | random_id:8, the registered id is the random part", f.Pos(), fmt.Sprintf("size %v, random written/read at %v", sz, offs), fmt.Sprintf("Connection.ping builds a packet of %v bytes with the random id written/registered at offsets %v; tcp.ping is 4+8 = 12 bytes and the id registered for the round trip must be the 8 bytes that are sent", sz, offs))
	}
	if f := c.fn("liteclient", "Connection.reader"); f != nil {
		for _, cl := range callsTo(f, modPath+"/liteclient.Connection.processPong") {
			off := "?"
			if c2 := callOf(cl.Call.Args[1]); c2 != nil {
				if sl, ok := c2.Call.Args[len(c2.Call.Args)-1].(*ssa.Slice); ok {
					off = offShape(sl.Low)
				}
			}
			lenOK := false
			for _, ft := range factsAt(f, cl.Block()) {
				if bo, ok := ft.Cond.(*ssa.BinOp); ok && bo.Op == token.EQL && ft.Truth {
					if k, ok := constInt(bo.Y); ok && k == 12 {
						if lc := callOf(bo.X); lc != nil {
							lenOK = true
						}
					}
				}
			}
			c.check(off == "4" && lenOK, R, "tcp.pong: 12 bytes, random_id at [4:]", cl.Pos(), "len == 12, LE64 at 4", fmt.Sprintf("the pong handler reads the id at offset %s (length test == 12: %v); tcp.pong is id:4 | random_id:8", off, lenOK))
		}
	}
	// processPong: found exactly on the ok edge
	if f := c.fn("liteclient", "Connection.processPong"); f != nil {
		okv := true
		for _, r := range returnsOf(f) {
			if r.Block().Comment == "recover" {
				continue // the exit taken after a recovered panic: returns whatever the results hold
			}
			found, isConst := constBool(retVal(r, 1))
			if !isConst {
				okv = false
				continue
			}
			present := false
			for _, ft := range factsAt(f, r.Block()) {
				if ex, ok := ft.Cond.(*ssa.Extract); ok && ex.Index == 1 && ft.Truth {
					if _, isL := ex.Tuple.(*ssa.Lookup); isL {
						present = true
					}
				}
			}
			if found != present {
				okv = false
			}
		}
		c.check(okv, R, "processPong reports a round trip exactly for a registered ping", f.Pos(), "true on the ok edge of the lookup", "processPong returns its found flag with the wrong polarity: round trips are recorded for unknown ids and dropped for real ones")
	}
	// without an auth key the connection is published right away; the auth exchange runs only with one
	if f := c.fn("liteclient", "Connection.setupEncryptedConnection"); f != nil {
		for _, cl := range callsTo(f, modPath+"/liteclient.Connection.sendAuthRequest") {
			okv := false
			for _, ft := range factsAt(f, cl.Block()) {
				if bo, ok := ft.Cond.(*ssa.BinOp); ok && (bo.Op == token.EQL || bo.Op == token.NEQ) && isNilConst(bo.Y) {
					if _, fn, ok := fieldOfLoad(bo.X); ok && fn == "authKey" && (bo.Op == token.NEQ) == ft.Truth {
						okv = true
					}
				}
			}
			c.check(okv, R, "the auth exchange runs only when an auth key is configured", cl.Pos(), "sendAuthRequest behind authKey != nil", "setupEncryptedConnection starts the auth exchange on the path where NO auth key is configured (and skips it where one is): an ordinary connection waits 10 s for a nonce that never comes and fails")
		}
	}
	// reconnect: the retry loop runs unless a reconnect is already in progress
	if f := c.fn("liteclient", "Connection.reconnect"); f != nil {
		kc := c.constValue("liteclient", "Connecting")
		for _, cl := range callsTo(f, modPath+"/liteclient.Connection.setupEncryptedConnection") {
			okv := false
			for _, ft := range factsAt(f, cl.Block()) {
				if bo, ok := ft.Cond.(*ssa.BinOp); ok && (bo.Op == token.EQL || bo.Op == token.NEQ) {
					for _, pr := range [][2]ssa.Value{{bo.X, bo.Y}, {bo.Y, bo.X}} {
						if k, ok := constInt(pr[1]); ok && k == kc {
							if _, fn, ok := fieldOfLoad(pr[0]); ok && fn == "status" && (bo.Op == token.NEQ) == ft.Truth {
								okv = true
							}
						}
					}
				}
			}
			c.check(okv, R, "reconnect proceeds unless one is already in progress", cl.Pos(), "retry loop behind status != Connecting", "reconnect returns early exactly when NO reconnect is in progress: a lost connection is never re-established")
		}
	}
	// handleAuthResponse: Connected is published on the success edge of sendAuthComplete
	if f := c.fn("liteclient", "Connection.handleAuthResponse"); f != nil {
		kc := c.constValue("liteclient", "Connected")
		allInstrs(f, func(b *ssa.BasicBlock, in ssa.Instruction) {
			st, ok := in.(*ssa.Store)
			if !ok {
				return
			}
			if _, fn, ok := fieldOf(st.Addr); !ok || fn != "status" {
				return
			}
			if k, ok := constInt(st.Val); !ok || k != kc {
				return
			}
			okv := false
			for _, ft := range factsAt(f, b) {
				if bo, ok := ft.Cond.(*ssa.BinOp); ok && (bo.Op == token.EQL || bo.Op == token.NEQ) && isNilConst(bo.Y) && isErrorType(bo.X.Type()) {
					if (bo.Op == token.EQL) == ft.Truth {
						okv = true
					}
				}
			}
			c.check(okv, R, "Connected is published only after a successful auth completion", st.Pos(), "status = Connected behind err == nil", "handleAuthResponse marks the connection Connected on the path where sending the auth completion FAILED")
		})
	}
	c.floor(R, 8)
}

// handTagDispatch: the few answers the client decodes by hand (WaitMasterchainSeqno,
// WaitMasterchainBlock) read a 4-byte constructor id and branch on it. Every id they compare with
// is a constructor of lite_api.tl; the value decoded behind `tag == K` (true edge) has the Go type
// generated for constructor K; and the body handed to the decoder starts right after the 4 id bytes.
func (c *Ctx) handTagDispatch() {
	const R = "E4.hand-dispatch"
	decls, err := parseTLSchema(filepath.Join(c.RepoDir, "liteclient", "lite_api.tl"))
	if err != nil {
		c.bad(R, "schema parse", token.NoPos, err.Error())
		return
	}
	byID := map[int64]tlDecl{}
	for _, d := range decls {
		if !d.isFunc {
			byID[int64(d.id)] = d
		}
	}
	n := 0
	for _, f := range c.moduleFuncs("liteclient") {
		pos := c.Fset.Position(f.Pos())
		if strings.HasSuffix(pos.Filename, "generated.go") {
			continue
		}
		isTag := func(v ssa.Value) bool {
			cl := callOf(v)
			return cl != nil && callQName(&cl.Call) == "encoding/binary.littleEndian.Uint32"
		}
		for _, cl := range callsTo(f, modPath+"/tl.Unmarshal") {
			// the dominating tag facts
			var k int64 = -1
			eq := false
			for _, ft := range factsAt(f, cl.Block()) {
				bo, ok := ft.Cond.(*ssa.BinOp)
				if !ok || (bo.Op != token.EQL && bo.Op != token.NEQ) || !isTag(bo.X) {
					continue
				}
				if kk, ok := constInt(bo.Y); ok && k < 0 {
					k, eq = kk, (bo.Op == token.EQL) == ft.Truth
				}
			}
			if k < 0 {
				continue
			}
			n++
			d, known := byID[k]
			// target type
			tname := "?"
			if mi, ok := cl.Call.Args[1].(*ssa.MakeInterface); ok {
				if pt, ok := mi.X.Type().Underlying().(*types.Pointer); ok {
					if nt, ok := pt.Elem().(*types.Named); ok {
						tname = nt.Obj().Name()
					}
				}
			}
			want := ""
			if known {
				want = camel(d.name) + "C"
			}
			// body offset
			off := "?"
			derivesFrom(cl.Call.Args[0], func(v ssa.Value) bool {
				if sl, ok := v.(*ssa.Slice); ok && off == "?" {
					off = offShape(sl.Low)
				}
				return false
			}, true)
			key := fmt.Sprintf("%s: answer 0x%08x", fnName(f), uint32(k))
			c.check(known && eq && (tname == want || strings.EqualFold(tname, want)) && off == "4", R, key, cl.Pos(), fmt.Sprintf("%s decoded into %s from offset 4 on the == edge", d.name, tname),
				fmt.Sprintf("%s decodes an answer into %s from offset %s behind 'tag %s 0x%08x': the id must be a constructor of lite_api.tl (found: %v, %s), tested with ==, the target its generated type (%s) and the body start right after the 4 id bytes", fnName(f), tname, off, map[bool]string{true: "==", false: "!="}[eq], uint32(k), known, d.name, want))
		}
	}
	if n < 2 {
		c.bad(R, "hand-written answer dispatch found", token.NoPos, fmt.Sprintf("only %d hand-decoded answers found in package liteclient; at least the two wait calls were confirmed", n))
	}
}

// sharedUnsafeObjects: a *math/rand.Rand (unlike the package-level functions of math/rand and crypto/rand) is
// not safe for concurrent use. One that lives in a struct field is shared by every goroutine that uses the
// struct; the client's Request runs on the callers' goroutines. Rule: a method call on a *rand.Rand loaded from
// a struct field is made with a write lock held. (No instance on the pinned tree: query ids come from the
// package-level generator.)
func (c *Ctx) sharedUnsafeObjects(la *lockAnalysis, rels ...string) {
	const R = "E9.K12-shared-rand"
	n := 0
	for _, rel := range rels {
		for _, f := range c.moduleFuncs(rel) {
			allInstrs(f, func(_ *ssa.BasicBlock, in ssa.Instruction) {
				cl, ok := in.(*ssa.Call)
				if !ok || cl.Call.IsInvoke() {
					return
				}
				q := callQName(&cl.Call)
				if !strings.HasPrefix(q, "math/rand.Rand.") && !strings.HasPrefix(q, "math/rand/v2.Rand.") {
					return
				}
				ld, isLd := cl.Call.Args[0].(*ssa.UnOp)
				if !isLd {
					return
				}
				if _, _, isField := fieldOf(ld.X); !isField {
					return
				}
				n++
				c.check(heldAt(la, in) != "", R, fnName(f)+" uses the shared generator under a lock", cl.Pos(), "a write lock is held at the call", fnName(f)+" calls "+shortQ(q)+" on a *rand.Rand kept in a struct field without holding a lock: the generator is not safe for concurrent use, two concurrent requests can draw the same query id (the later registration replaces the earlier one and one caller never gets its answer) or corrupt the generator's state")
			})
		}
	}
	c.ok(R, "generators kept in struct fields", token.NoPos, fmt.Sprintf("%d use(s) of a *rand.Rand held in a struct field, each under a lock", n))
}
