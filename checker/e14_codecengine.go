package main

import (
	"fmt"
	"go/ast"
	"go/token"
	"go/types"
	"reflect"
	"sort"
	"strings"

	"golang.org/x/tools/go/ssa"
)

// E14: self-consistency of the reflection codec (tlb/encoder.go, tlb/decoder.go).

func (c *Ctx) codecEngine() {
	const R = "E14.codec-engine"
	p := c.pkg("tlb")
	if p == nil {
		return
	}
	c.wholeCellValues(R)
	c.maybeBits(R)
	// (a) kind -> width on both sides. Decided by partial evaluation (E18): with every reflect.Value.Kind()
	// call assumed to return kind K, the cell reads/writes that become reachable only for K (not for the
	// invalid kind) are exactly one Read/Write{Int,Uint} of the constant width TL-B prescribes. The
	// dispatch may be a switch, an if-chain or a helper mapping the kind to a width.
	kindWidth := func(fname string) map[string]string {
		out := map[string]string{}
		f := c.fn("tlb", fname)
		if f == nil {
			return out
		}
		evalKind := func(k int64) map[*ssa.Call]string {
			pe := &peval{c: c, assume: func(cc *ssa.CallCommon) (int64, bool) {
				if callQName(cc) == "reflect.Value.Kind" {
					return k, true
				}
				// reflect.Type.Bits() of a value of this kind: the size of the kind in bits
				if cc.IsInvoke() && cc.Method.Name() == "Bits" && cc.Method.Pkg() != nil && cc.Method.Pkg().Path() == "reflect" {
					if b, ok := map[reflect.Kind]int64{reflect.Int8: 8, reflect.Int16: 16, reflect.Int32: 32, reflect.Int64: 64, reflect.Uint8: 8, reflect.Uint16: 16, reflect.Uint32: 32, reflect.Uint64: 64}[reflect.Kind(k)]; ok {
						return b, true
					}
				}
				return 0, false
			}}
			res := pe.run(f, nil)
			got := map[*ssa.Call]string{}
			res.reachableCalls(func(owner *pevalResult, cl *ssa.Call) {
				q := callQName(&cl.Call)
				if !strings.HasPrefix(q, bocPath+".Cell.") {
					return
				}
				m := strings.TrimPrefix(q, bocPath+".Cell.")
				switch m {
				case "WriteUint", "WriteInt", "ReadUint", "ReadInt":
					w := "?"
					if v, ok := owner.val(cl.Call.Args[len(cl.Call.Args)-1]); ok {
						w = fmt.Sprint(v)
					}
					got[cl] = strings.TrimPrefix(strings.TrimPrefix(m, "Write"), "Read") + " " + w
				case "WriteBit", "ReadBit":
					got[cl] = "Bit 1"
				case "WriteBytes", "ReadBytes", "WriteBitString", "ReadBits", "ReadRemainingBits", "WriteBigUint", "ReadBigUint", "WriteBigInt", "ReadBigInt":
					got[cl] = m
				}
			})
			return got
		}
		base := evalKind(int64(reflect.Invalid))
		for name, k := range map[string]reflect.Kind{"Uint8": reflect.Uint8, "Uint16": reflect.Uint16, "Uint32": reflect.Uint32, "Uint64": reflect.Uint64, "Int8": reflect.Int8, "Int16": reflect.Int16, "Int32": reflect.Int32, "Int64": reflect.Int64, "Bool": reflect.Bool} {
			var specific []string
			for cl, d := range evalKind(int64(k)) {
				if _, ok := base[cl]; !ok {
					specific = append(specific, d)
				}
			}
			sort.Strings(specific)
			out[name] = strings.Join(specific, " + ")
		}
		return out
	}
	want := map[string]string{"Uint8": "Uint 8", "Uint16": "Uint 16", "Uint32": "Uint 32", "Uint64": "Uint 64", "Int8": "Int 8", "Int16": "Int 16", "Int32": "Int 32", "Int64": "Int 64", "Bool": "Bit 1"}
	enc, dec := kindWidth("encode"), kindWidth("decode")
	var ks []string
	for k := range want {
		ks = append(ks, k)
	}
	sort.Strings(ks)
	for _, k := range ks {
		c.check(enc[k] == want[k] && dec[k] == want[k], R, "reflect."+k+" width on both sides", token.NoPos, "encode and decode use "+want[k]+" (partial evaluation of both functions for this kind)",
			fmt.Sprintf("reflect.%s: encode uses %q, decode uses %q, TL-B needs %q on both sides", k, enc[k], dec[k], want[k]))
	}
	// (b) a field tag is consumed once: recursive calls of encode pass the empty tag
	if f := c.mustFn(R, "tlb", "encode"); f != nil {
		n, okAll := 0, true
		allInstrs(f, func(_ *ssa.BasicBlock, in ssa.Instruction) {
			cl, ok := in.(*ssa.Call)
			if !ok || cl.Call.StaticCallee() == nil || origin(cl.Call.StaticCallee()) != f {
				return
			}
			n++
			if s, ok := constString(cl.Call.Args[1]); !ok || s != "" {
				okAll = false
			}
		})
		c.check(okAll && n >= 1, R, "encode passes an empty tag when it recurses", f.Pos(), fmt.Sprintf("%d recursive call(s), each with the constant empty tag: maybe/^ modifiers are applied once", n), "encode recurses (pointer case) with the field's tag still set: a maybe / ^ modifier is applied twice (extra flag bit, extra reference level)")
	}
	if f := c.mustFn(R, "tlb", "decode"); f != nil {
		// every modifier branch (IsMaybeRef / IsMaybe / IsRef) reassigns tag to "" : the phi of tag at the join must have "" on those edges
		n := 0
		okAll := true
		allInstrs(f, func(_ *ssa.BasicBlock, in ssa.Instruction) {
			cl, ok := in.(*ssa.Call)
			if !ok || cl.Call.StaticCallee() == nil || origin(cl.Call.StaticCallee()) != f {
				return
			}
			n++
			// the tag argument is "" or a phi all of whose non-parameter edges are ""
			a := cl.Call.Args[1]
			if s, ok := constString(a); ok && s == "" {
				return
			}
			phi, ok := a.(*ssa.Phi)
			if !ok {
				okAll = false
				return
			}
			emp := 0
			for _, e := range phi.Edges {
				if s, ok := constString(e); ok && s == "" {
					emp++
				} else if e != ssa.Value(f.Params[1]) {
					okAll = false
				}
			}
			if emp < 3 {
				okAll = false
			}
		})
		c.check(okAll && n >= 1, R, "decode clears the tag in every modifier branch", f.Pos(), "the tag reaching the recursive calls is empty on the maybe^, maybe and ^ paths", "decode recurses with a tag that was not cleared after its maybe / ^ modifier was consumed")
	}
	// (c) sum-tag writer and reader use the parsed Len/Val of the same ParseTag
	for _, pr := range [][2]string{{"encodeSumTag", bocPath + ".Cell.WriteUint"}, {"compareWithSumTag", bocPath + ".Cell.PickUint"}} {
		f := c.fn("tlb", pr[0])
		if f == nil && pr[0] == "encodeSumTag" {
			// inlined into its callers: the sum-type encoder is then the function that parses the tag and writes it
			if g := c.fn("tlb", "encodeSumType"); g != nil && len(callsTo(g, tlbPath+".ParseTag")) == 1 {
				f = g
			}
		}
		if f == nil {
			f = c.mustFn(R, "tlb", pr[0])
		}
		if f == nil {
			continue
		}
		cs := callsTo(f, pr[1])
		okv := len(cs) == 1 && len(callsTo(f, tlbPath+".ParseTag")) == 1
		if okv {
			wArg := cs[0].Call.Args[len(cs[0].Call.Args)-1]
			okv = derivesFrom(wArg, func(v ssa.Value) bool { _, fn, ok := fieldOf(v); return ok && fn == "Len" }, false)
		}
		c.check(okv, R, pr[0]+" uses the tag's own length", f.Pos(), "width argument is ParseTag(tag).Len", pr[0]+" no longer writes/compares the constructor tag with the length parsed from the tag string")
	}
	c.floor(R, 12)
}

// externalEnvelope: ton.CreateExternalMessage builds ext_in_msg_info with source addr_none,
// destination from the address parameter, and stores body and init as references.
func (c *Ctx) externalEnvelope() {
	const R = "E14.external-envelope"
	f := c.mustFn(R, "ton", "CreateExternalMessage")
	if f == nil {
		return
	}
	nRight, okRight := 0, true
	sum := ""
	destOK, srcOK := false, false
	// (the envelope may be assembled in the function or in an unexported helper it calls)
	c.allInstrsDeep(f, func(_ *ssa.BasicBlock, in ssa.Instruction) {
		st, ok := in.(*ssa.Store)
		if !ok {
			return
		}
		_, fn, ok := fieldOf(st.Addr)
		if !ok {
			return
		}
		switch fn {
		case "IsRight":
			nRight++
			if b, ok := constBool(st.Val); !ok || !b {
				okRight = false
			}
		case "SumType":
			if s, ok := constString(stripConv(st.Val)); ok {
				sum = s
			}
		case "Dest":
			destOK = derivesFrom(st.Val, func(v ssa.Value) bool { return v == ssa.Value(f.Params[0]) }, true)
		case "Src":
			// ToMsgAddress of a nil *AccountID
			if cl := callOf(st.Val); cl != nil && strings.HasSuffix(callQName(&cl.Call), "AccountID.ToMsgAddress") {
				srcOK = isNilConst(stripConv(cl.Call.Args[0]))
			}
		}
	})
	c.check(okRight && nRight >= 2, R, "body and init are stored in references", f.Pos(), fmt.Sprintf("%d IsRight flags, each the constant true", nRight), "CreateExternalMessage no longer always stores the body (and init) in a reference: a body with 4 references cannot share the root cell with an init reference (refused sends within the message limit)")
	c.check(sum == "ExtInMsgInfo", R, "constructor is ext_in_msg_info", f.Pos(), "SumType = ExtInMsgInfo", "CreateExternalMessage builds "+sum+" instead of ext_in_msg_info")
	c.check(destOK, R, "destination derives from the address parameter", f.Pos(), "Dest = address.ToMsgAddress()", "the destination of the external message no longer derives from the address parameter")
	c.check(srcOK, R, "source is addr_none", f.Pos(), "Src = (*AccountID)(nil).ToMsgAddress()", "the source of the external message is no longer addr_none")
	c.floor(R, 4)
}

// wholeCellValues: a boc.Cell VALUE (code, data, library, ^Cell fields) carries more than bits
// and references: its exotic type and level mask determine the descriptor byte and the hash. The
// encoder therefore replaces the target cell with the value (or copies type and mask as well), and
// the decoder hands out the whole cell.
func (c *Ctx) wholeCellValues(R string) {
	encCell := c.fn("tlb", "encodeCell")
	if encCell == nil {
		encCell = c.fn("tlb", "encode") // the small per-type helper inlined into the encoder's struct case
	}
	if encCell == nil {
		encCell = c.mustFn(R, "tlb", "encodeCell")
	}
	if f := encCell; f != nil {
		whole := false
		typ, mask := false, false
		allInstrs(f, func(_ *ssa.BasicBlock, in ssa.Instruction) {
			st, ok := in.(*ssa.Store)
			if !ok {
				return
			}
			// *c = value: a whole boc.Cell stored through the target pointer (the parameter, or the child cell the
			// encoder moved to for a ^ field)
			if strings.HasSuffix(st.Val.Type().String(), "boc.Cell") && strings.HasSuffix(st.Addr.Type().String(), "*"+bocPath+".Cell") {
				_, isFA := st.Addr.(*ssa.FieldAddr)
				_, isLocal := st.Addr.(*ssa.Alloc)
				target := derivesFrom(st.Addr, func(v ssa.Value) bool {
					if v == ssa.Value(f.Params[0]) {
						return true
					}
					cl := callOf(v)
					return cl != nil && callQName(&cl.Call) == bocPath+".Cell.NewRef"
				}, false)
				if !isFA && !isLocal && target {
					whole = true
				}
			}
			if of, ok := ownerField(st.Addr); ok {
				if of == "boc.Cell.cellType" {
					typ = true
				}
				if of == "boc.Cell.mask" {
					mask = true
				}
			}
		})
		// field stores cannot be made from package tlb (unexported), so any piecewise copy that goes through the
		// public Write*/AddRef API loses type and mask unless a boc helper is used that the rule does not know
		c.check(whole || (typ && mask), R, "a Cell value is encoded with its exotic type and level mask", f.Pos(), "*c = value (whole cell)", "tlb.encodeCell copies only bits and references of a boc.Cell value into the target: the exotic type and level mask are lost, so a library/pruned/Merkle cell behind a ^Cell field (wallet v5 beta code) is emitted as an ordinary cell with a different descriptor and hash")
	}
	if f := c.mustFn(R, "tlb", "decodeCell"); f != nil {
		okv := false
		allInstrs(f, func(_ *ssa.BasicBlock, in ssa.Instruction) {
			if cl, ok := in.(*ssa.Call); ok && callQName(&cl.Call) == "reflect.Value.Set" {
				okv = derivesFrom(cl.Call.Args[1], func(v ssa.Value) bool { return v == ssa.Value(f.Params[0]) }, true)
			}
		})
		c.check(okv, R, "a Cell value is decoded as the whole cell", f.Pos(), "val.Set(*c)", "tlb.decodeCell no longer hands out the whole cell it was given")
	}
}

// valueReceivers: the encoders dispatch to a custom method by asserting the interface on the VALUE
// they got from reflection (tlb.encode: o.(MarshalerTLB); tl.Marshal: o.(MarshalerTL)); unlike the
// decoders they never try the pointer form. A custom encoder declared on the pointer receiver is
// therefore skipped for every value held by value (struct fields, vector elements) and the generic
// reflective encoding is emitted instead - silently different for types whose custom form is not the
// reflective one. Every MarshalTLB / MarshalTL of the module is declared on the value receiver, and the
// TL compiler emits value receivers.
func (c *Ctx) valueReceivers(rule string, method string, rels ...string) int {
	n := 0
	for _, rel := range rels {
		p := c.pkg(rel)
		if p == nil {
			continue
		}
		sc := p.Types.Scope()
		names := sc.Names()
		sort.Strings(names)
		for _, name := range names {
			tn, ok := sc.Lookup(name).(*types.TypeName)
			if !ok || tn.IsAlias() {
				continue
			}
			named, ok := tn.Type().(*types.Named)
			if !ok {
				continue
			}
			if method == "MarshalJSON" {
				// only the pairs whose text form is claimed to parse back: types that also read their own form
				hasU := false
				for i := 0; i < named.NumMethods(); i++ {
					if named.Method(i).Name() == "UnmarshalJSON" {
						hasU = true
					}
				}
				if !hasU {
					continue
				}
			}
			for i := 0; i < named.NumMethods(); i++ {
				m := named.Method(i)
				if m.Name() != method {
					continue
				}
				n++
				sig := m.Type().(*types.Signature)
				_, isPtr := sig.Recv().Type().(*types.Pointer)
				key := rel + "." + name + "." + method + " is declared on the value receiver"
				c.check(!isPtr, rule, key, m.Pos(), "value receiver: found by the encoder's interface assertion on values", fmt.Sprintf("%s.%s.%s has a pointer receiver: the encoder asserts the interface on values, so a %s held by value (a struct field, a vector element, an argument passed by value) is encoded reflectively instead of through this method", rel, name, method, name))
			}
		}
	}
	return n
}

// generatedReceivers: the method headers the TL compiler emits.
func (c *Ctx) generatedReceivers(rule string) {
	p := c.pkg("tl/parser")
	if p == nil {
		return
	}
	n := 0
	for _, f := range p.Syntax {
		ast.Inspect(f, func(nd ast.Node) bool {
			bl, ok := nd.(*ast.BasicLit)
			if !ok || bl.Kind != token.STRING {
				return true
			}
			s := bl.Value
			for _, m := range []string{"MarshalTL()", "UnmarshalTL("} {
				i := strings.Index(s, ") "+m)
				if i < 0 {
					continue
				}
				j := strings.LastIndex(s[:i], "func (")
				if j < 0 {
					continue
				}
				recv := s[j+6 : i]
				n++
				if m == "MarshalTL()" {
					c.check(!strings.Contains(recv, "*"), rule, "generated MarshalTL has a value receiver", bl.Pos(), "func (t T) MarshalTL()", "the TL compiler emits MarshalTL with a pointer receiver ("+recv+"): tl.Marshal asserts the interface on values, so nested generated types and vector elements are encoded reflectively, without their mode-bit guards and constructor ids")
				} else {
					c.check(strings.Contains(recv, "*"), rule, "generated UnmarshalTL has a pointer receiver", bl.Pos(), "func (t *T) UnmarshalTL(r)", "the TL compiler emits UnmarshalTL with a value receiver ("+recv+"): the decoded fields are lost")
				}
			}
			return true
		})
	}
	if n == 0 {
		c.bad(rule, "generated method headers", token.NoPos, "no MarshalTL/UnmarshalTL method header found in the TL compiler's templates (anchor moved?)")
	}
}

// maybeBits: the reflection encoder writes the Maybe presence bit from the nil-ness of the value:
// nothing$0 for a nil value (and nothing else), just$1 before a present one. Every constant
// WriteBit in tlb.encode that sits behind the isNil test carries the bit that the test's outcome
// stands for.
func (c *Ctx) maybeBits(rule string) {
	f := c.fn("tlb", "encode")
	if f == nil {
		return
	}
	n, okv := 0, true
	zeros, ones := 0, 0
	var bad []string
	// the presence bit may be written in tlb.encode itself or in a helper it calls (the shared prefix of the
	// maybe and maybe^ cases extracted into one function)
	for _, g := range c.helperClosure(f, 2, nil) {
		for _, cl := range callsTo(g, bocPath+".Cell.WriteBit") {
			bit, ok := constBool(cl.Call.Args[1])
			if !ok {
				// the bit computed from the test itself: WriteBit(!isNil(o)) is right, WriteBit(isNil(o)) inverted
				a, neg := cl.Call.Args[1], false
				if u, ok := a.(*ssa.UnOp); ok && u.Op == token.NOT {
					a, neg = u.X, true
				}
				if ic := callOf(a); ic != nil && strings.HasSuffix(callQName(&ic.Call), "tlb.isNil") {
					n++
					if neg {
						zeros++
						ones++
					} else {
						okv = false
						bad = append(bad, fmt.Sprintf("%s: writes isNil itself as the presence bit", c.rel(cl.Pos())))
					}
				}
				continue
			}
			for _, ft := range factsAt(g, cl.Block()) {
				ic := callOf(ft.Cond)
				if ic == nil || !strings.HasSuffix(callQName(&ic.Call), "tlb.isNil") {
					continue
				}
				n++
				if bit {
					ones++
				} else {
					zeros++
				}
				if bit == ft.Truth { // nil (true) must write 0, present (false) must write 1
					okv = false
					bad = append(bad, fmt.Sprintf("%s: writes %v where isNil is %v", c.rel(cl.Pos()), bit, ft.Truth))
				}
				break
			}
		}
	}
	c.check(okv && zeros >= 1 && ones >= 1, rule, "Maybe presence bit: nil -> 0, present -> 1", f.Pos(), fmt.Sprintf("%d constant presence bits behind the nil test", n), "tlb.encode writes a Maybe presence bit that contradicts the nil test it sits behind ("+strings.Join(bad, "; ")+"): a missing value is announced as present (the decoder then reads a value that is not there) or a present one as missing")
}
