package main

import (
	"go/types"
	"strings"

	"golang.org/x/tools/go/ssa"
)

func init() { register("C08", propC08) }

// methodsNamed returns every in-module method (generic origins) with one of the given names,
// declared in packages under the listed module-relative prefixes.
func (c *Ctx) methodsNamed(names []string, pkgPrefixes ...string) []*ssa.Function {
	var rels []string
	for p := range c.ByPath {
		if !strings.HasPrefix(p, modPath) {
			continue
		}
		rel := strings.TrimPrefix(strings.TrimPrefix(p, modPath), "/")
		for _, pre := range pkgPrefixes {
			if rel == pre || strings.HasPrefix(rel, pre+"/") {
				rels = append(rels, rel)
			}
		}
	}
	sortStrings(rels)
	var out []*ssa.Function
	for _, f := range c.moduleFuncs(rels...) {
		if f.Parent() != nil || f.Signature.Recv() == nil {
			continue
		}
		for _, n := range names {
			if f.Name() == n {
				out = append(out, f)
			}
		}
	}
	return out
}

var _ = types.Typ

func propC08(c *Ctx) propInfo {
	c.statelessCodecs("E17.stateless", excStateless, "tlb", "tl", "boc")
	roots := c.rootsByName("E1.roots",
		"tlb:Unmarshal", "tlb:Decoder.Unmarshal", "tl:Unmarshal",
		"liteclient:LiteapiRequestDecoder", "liteclient:ParsePacket", "liteclient:Client.processQueryAnswer", "liteclient:decodeLength",
		"liteclient:Connection.sendAuthComplete",
		"code:ParseContractMethods")
	roots = append(roots, c.methodsNamed([]string{"UnmarshalTLB", "ValidateTag"}, "tlb", "wallet", "ton", "tep64", "abi", "contract")...)
	roots = append(roots, c.methodsNamed([]string{"UnmarshalTL"}, "tl", "liteclient", "ton")...)
	// helpers that sit directly on lite-server answers: analysed in a second pass that reports
	// only package liteapi and does not follow the request path into the network client
	var apiRoots []*ssa.Function
	for _, f := range c.moduleFuncs("liteapi") {
		if f.Parent() == nil {
			apiRoots = append(apiRoots, f)
		}
	}
	depth := 2
	pk := map[string]bool{"tlb": true, "tl": true, "liteclient": true, "code": true, "boc": true}
	if c.Tier == "thorough" {
		depth = 3
	}
	trav := map[string]bool{"tlb": true, "tl": true, "liteclient": true, "code": true, "boc": true, "ton": true, "utils": true, "wallet": true, "tep64": true}
	c.panicFree(e1cfg{roots: roots, pkgs: pk, traverse: trav, maxDepth: depth, exc: mergeExc(excC07, excC08), excP5: mergeExc(excC07P5, excC08P5)})
	trav2 := map[string]bool{"liteapi": true, "tlb": true, "tl": true, "boc": true, "ton": true, "utils": true, "code": true}
	c.panicFree(e1cfg{roots: apiRoots, pkgs: map[string]bool{"liteapi": true}, traverse: trav2, maxDepth: depth, exc: excC08, excP5: excC08P5})
	c.reflectSetGuards("tlb")
	c.nilFuncCalls("tlb", "tl", "boc")
	c.nilContradictions("E1.P8-nil-contradiction", "tlb", "tl", "boc", "liteclient", "liteapi", "ton")
	c.errflow(excE2, "tlb", "tl", "code", "boc")
	c.errflow(excLiteapiE2, "liteapi")
	c.guardPolarity("liteapi")
	c.bufferSizing() // the bounds proofs of the bit-level readers/writers lean on 8*len(buf) >= cap
	c.floor("E1.P2-bounds", 250)
	c.floor("E1.P4-alloc", 9)
	c.floor("E1.P5-recursion", 4)
	c.floor("E1.P7-libpre", 15)
	c.floor("E2.R-tolerated", 1)
	return propInfo{
		explanation: "Static structural clauses of C08 (DESIGN.md §4 C08): on every function of packages tlb, tl, liteclient, code reachable from the TL-B/TL decoding entry points (every UnmarshalTLB/UnmarshalTL method, tlb.Unmarshal, tl.Unmarshal, the request decoder, ADNL answer framing): no explicit panic, indices/slices proved in bounds or covered by a re-verified per-construct exception, no unchecked type assertion, data-sized allocations bounded, recursion bounded; error discipline of the decoders. Decides absence of these crash constructs, not time/memory proportionality of DAG unfolding nor nil dereference in general. A pointer result used where its call's error may still be non-nil is nil-tested first (R-tolerated).",
		assumptions: []string{"integer overflow of int/uint arithmetic on sizes is not modelled", "reflect misuse is not modelled", "nil dereference is not modelled"},
	}
}

var parallelInv = "Hashmap keeps keys and values as parallel slices: every append to one is paired with an append to the other (C05 parallel-slice rule), so Keys(), Values() and Items() have equal length"

var excC08 = map[string]excEntry{
	// ---- the cell/bit-string read primitives the decoders stand on (package boc is reported under C08 as well)
	"(*boc.Cell).CopyRemaining P1 panic _":                                                    {"unreachable: NextRef is called RefsAvailableForRead() times, which counts the non-nil references from the cursor on, so it cannot fail", nil},
	"(*boc.Cell).CopyRemaining P1 panic _#2":                                                  {"unreachable: at most 4 references of an existing cell are added to a fresh cell", nil},
	"boc.NewCellWithBits P1 panic _":                                                          {"the argument is a bit string read from a cell (CopyRemaining) or a dictionary key of the declared key width; both are <= 1023 bits", nil},
	"(*boc.BitString).ReadBits P2 index *&bitString.buf[(len(_)-1)]":                          {"reached only for n%8 != 0, so n >= 1 and NewBitString(n) allocated ceil(n/8) >= 1 bytes (buffer-sizing rule)", nil},
	"(*boc.BitString).ReadBits P2 index *&bitString.buf[(len(_)-1)]#2":                        {"same element, read-modify-write", nil},
	"(*boc.BitString).ReadBits P2 slice *s.buf[(*s.rCursor/8):((_/8)+len(_))]":                {"aligned cursor and n <= len - rCursor (availability guard): rCursor/8 + ceil(n/8) <= ceil(len/8) <= len(buf) by " + bsInv, []guardRef{{"boc:BitString.ReadBits", "(boc.BitString.BitsAvailableForRead()<n)"}}},
	"(*boc.BitString).ReadByte P2 index *s.buf[(*s.rCursor>>3)]":                              {"8 bits available from an aligned cursor (availability guard) and " + bsInv, []guardRef{{"boc:BitString.ReadByte", "(boc.BitString.BitsAvailableForRead()<8)"}}},
	"(*boc.BitString).ReadByte P2 slice *s.buf[(*s.rCursor>>3):((_>>3)+2)]":                   {"8 bits available from an unaligned cursor span two bytes, both below ceil(len/8) (availability guard) and " + bsInv, []guardRef{{"boc:BitString.ReadByte", "(boc.BitString.BitsAvailableForRead()<8)"}}},
	"(*boc.BitString).ReadBytes P2 slice *s.buf[(*s.rCursor/8):((_/8)+size)]":                 {"aligned cursor and 8*size bits available (availability guard) and " + bsInv + "; size >= 0 at every in-module call site (a constant, a length read with a bounded width, or len of a slice)", []guardRef{{"boc:BitString.ReadBytes", "(boc.BitString.BitsAvailableForRead()<(size*8))"}}},
	"(*boc.BitString).ReadBytes P4 make []byte len=size cap=size":                             {"8*size <= available bits <= 1023 (availability guard); size >= 0 at every in-module call site", []guardRef{{"boc:BitString.ReadBytes", "(boc.BitString.BitsAvailableForRead()<(size*8))"}}},
	"(*boc.BitString).ReadUint P2 slice &buf[(8-(bitLen>>3)):]":                               {"0 <= bitLen <= 64 (width guard; widths are constants or struct-tag values at every in-module call site), so 0 <= 8-bitLen/8 <= 8", []guardRef{{"boc:BitString.ReadUint", "(bitLen>64)"}}},
	"(*boc.BitString).ReadUint P2 slice *s.buf[(*s.rCursor>>3):((_>>3)+(bitLen>>3))]":         {"aligned cursor, bitLen bits available (availability guard) and " + bsInv, []guardRef{{"boc:BitString.ReadUint", "(boc.BitString.BitsAvailableForRead()<bitLen)"}}},
	"(*boc.BitString).ReadUint P2 slice *s.buf[(*s.rCursor/8):]":                              {"rCursor <= len <= 8*len(buf) by " + bsInv + ", so rCursor/8 <= len(buf)", nil},
	"boc.minBitsRequired P2 index tab64[((_*571347909858961602)>>58)]":                        {"a uint64 shifted right by 58 is < 64 = len(tab64)", nil},
	"liteclient.decodeLength P1 panic _":                                                      {"unreachable: the preceding returns cover b[0] < 254 and b[0] == 255, so b[0] == 254 here (byte arithmetic, not input dependent)", []guardRef{{"liteclient:decodeLength", "(*b[0]==255)"}, {"liteclient:decodeLength", "~(*b[0]<254)"}, {"liteclient:decodeLength", "~(*b[0]!=254)"}}},
	"(tlb.Hashmap[keyT, T]).Items P2 index *&h.values[(φrangeindex+1)]":                       {parallelInv, nil},
	"(*liteapi.Client).GetAllShardsInfo P2 index tlb.HashmapE.Keys()[(φrangeindex+1)]":        {parallelInv, nil},
	"(*liteapi.Client).GetRootDNS P2 index tlb.Hashmap.Values()[(φrangeindex+1)]":             {parallelInv, nil},
	"liteapi.decodeAccountDataFromProof P2 index tlb.HashmapAugE.Values()[(φrangeindex+1)]":   {parallelInv, nil},
	"liteapi.decodeAccountDataFromProof P2 index tlb.HashmapAugE.Values()[(φrangeindex+1)]#2": {parallelInv, nil},
	"(*liteapi.Client).GetLastTransactions P2 slice append(φres)[:limit]":                     {"limit is the caller's API argument, not server data; guarded by len(res) >= limit", nil},
	"liteapi.downloadConfig$1 P2 index **o.LiteServers[i]":                                    {"i, j are the indices sort/rand.Shuffle passes to its callback, always within the slice being permuted", nil},
	"liteapi.downloadConfig$1 P2 index **o.LiteServers[i]#2":                                  {"same", nil},
	"liteapi.downloadConfig$1 P2 index **o.LiteServers[j]":                                    {"same", nil},
	"liteapi.downloadConfig$1 P2 index **o.LiteServers[j]#2":                                  {"same", nil},
	// tlb.ParseTag works on struct tags (compile-time constants of the program, not wire data)
	"tlb.ParseTag P2 slice tagString[(φseparatorPlace+1):]":   {"separatorPlace is the index of a '$'/'#' found by ranging over tagString, and the function returns before slicing when none was found or it is the last byte", []guardRef{{"tlb:ParseTag", "(φbase==0)"}, {"tlb:ParseTag", "(len(tagString)==(φseparatorPlace+1))"}}},
	"tlb.ParseTag P2 slice tagString[(φseparatorPlace+1):]#2": {"same", []guardRef{{"tlb:ParseTag", "(φbase==0)"}}},
	"tlb.ParseTag P2 slice tagString[:φseparatorPlace]":       {"same", []guardRef{{"tlb:ParseTag", "(φbase==0)"}}},
	"tlb.ParseTag P2 slice tagString[:φseparatorPlace]#2":     {"same", []guardRef{{"tlb:ParseTag", "(φbase==0)"}}},
	// debug path: a pop always follows the push made by the same invocation (withDebug only)
	"tlb.decode$1 P2 slice **decoder.debugPath[:(len(_)-1)]":                                                              {"deferred pop of the element appended at the top of decode under the same withDebug test", nil},
	"tlb.decodeBasicStruct P2 slice *decoder.debugPath[:(len(_)-1)]":                                                      {"pop of the element appended at the start of the same loop iteration under the same withDebug test", nil},
	"tlb.decodeSumType$1 P2 slice **decoder.debugPath[:(len(_)-1)]":                                                       {"deferred pop of the element appended just before under the same withDebug test", nil},
	"(*liteclient.Connection).sendAuthComplete P3 assert crypto/ed25519.PrivateKey.Public().(crypto/ed25519.PublicKey)":   {"ed25519.PrivateKey.Public always returns an ed25519.PublicKey (documented)", nil},
	"tlb.decode P3 assert reflect.Value.Interface().(tlb.UnmarshalerTLB)":                                                 {"p is reflect.New of the element type of a pointer type that was just shown (comma-ok) to implement UnmarshalerTLB", nil},
	"tl.readByteSlice P4 make []byte len=encoding/binary.littleEndian.Uint32() cap=encoding/binary.littleEndian.Uint32()": {"the length word is read as 3 bytes into a zeroed 4-byte buffer: at most 2^24-1 bytes (16 MiB) per length prefix - bounded by a constant, although not by the input size", nil},
	"(*liteclient.Connection).sendAuthComplete P7 call crypto/ed25519.Sign len(arg0)==64":                                 {"authKey is supplied by the local application through NewConnection, not by the peer", nil},
}

var refDescent = "each recursive step first moves to a referenced cell (NextRef) or consumes at least one bit of a 1023-bit cell; the depth of a parsed cell tree is bounded by the BOC parser (maxDepth)"

var excC08P5 = map[string]excEntry{
	"tlb.decode":                            {"the reflection decoder recurses over the (finite) Go type structure and, for recursive TL-B types, " + refDescent, []guardRef{gParseDepth}},
	"tl.decode":                             {"the reflective TL decoder recurses over the finite Go type structure of the generated lite-api types (no recursive TL types in lite_api.tl)", nil},
	"tlb.decodeRecursiveBinTree":            {"bt_fork descends into two references: " + refDescent, []guardRef{gParseDepth}},
	"tlb.readChunks":                        {"chunked/snake data follows one reference per step: " + refDescent, []guardRef{gParseDepth}},
	"tlb.getStackListItems":                 {"vm_stk_cons: each step moves to the cell behind the next reference (a separate cycle under the VTA call graph, part of tlb.decode's cycle under CHA): " + refDescent, []guardRef{gParseDepth}},
	"tlb.vmTupleInner":                      {"vm_tuple_tcons/vm_tupref: each step moves to the cell behind the next reference: " + refDescent, []guardRef{gParseDepth}},
	"(*liteclient.AdnlMessage).UnmarshalTL": {"generated UnmarshalTL methods call tl.Unmarshal on their fields: recursion over the finite Go type structure", nil},
}

var excE2 = map[string]string{
	"(*tlb.MsgAddress).UnmarshalJSON R-ignored strconv.ParseInt":       "format probe: the first field is tried as a decimal workchain; when it does not parse the text is one of the other address forms, which the following branches handle",
	"(*boc.BitString).Append R-drop boc.BitString.WriteBitString":      "explicit '_ =': the receiver was grown by the missing number of bits just before, so the write fits",
	"(*boc.BitString).ReadRemainingBits R-drop boc.BitString.ReadBits": "reads exactly BitsAvailableForRead() bits, which cannot fail",
	"(*boc.BitString).ToFiftHex R-drop boc.BitString.WriteBit":         "writes the padding bit into a copy grown by 4-len%4 bits just before",
	"(*boc.BitString).ToFiftHex R-drop boc.BitString.WriteBit#2":       "same: at most 3 padding bits into the grown copy",
	"(*tlb.Message).Hash R-drop boc.Cell.WriteUint":                    "explicit '_ =': fixed 2-bit tag into a fresh 1023-bit cell; Hash has no error result",
	"(*tlb.Message).Hash R-drop boc.Cell.WriteUint#2":                  "explicit '_ =': fixed 2 bits into a fresh cell",
	"(*tlb.Message).Hash R-drop boc.Cell.WriteUint#3":                  "explicit '_ =': fixed 4 bits into a fresh cell",
	"(*tlb.Message).Hash R-drop boc.Cell.WriteBit":                     "explicit '_ =': one bit into a fresh cell",
	"(*tlb.Message).Hash R-drop boc.Cell.WriteBit#2":                   "explicit '_ =': one bit into a fresh cell",
	"(*tlb.Message).Hash R-drop boc.Cell.AddRef":                       "explicit '_ =': first reference of a fresh cell",
	"(*tlb.Message).Hash R-drop boc.Cell.Hash256":                      "explicit 'hash, _ :=': Hash has no error result; the cell was built in this function from at most 1 reference",
	"(*tlb.Message).Hash R-drop tlb.MsgAddress.MarshalTLB":             "explicit '_ =': destination of a decoded ext-in message (<= 2+1+8+256 bits after anycast is cleared) into a fresh cell; Hash has no error result",
	"(tlb.VmStackValue).Unmarshal R-drop tlb.toInt#2":                  "guarded by the kind range test reflect.Int..reflect.Uint64 just above, which is exactly the set of kinds toInt accepts",
	"tlb.compareWithSumTag R-drop boc.Cell.Skip":                       "explicit '_ =': the same number of bits was just picked successfully (PickUint) from the same position",
}

var excLiteapiE2 = map[string]string{}
