package main

import (
	"fmt"
	"go/token"
	"go/types"
	"sort"
	"strings"

	"golang.org/x/tools/go/ssa"
)

// E2 errflow: error discipline on SSA.

// errIndex returns the index of the (last) error result of a call, or -1.
func errIndex(sig *types.Signature) int {
	r := sig.Results()
	for i := r.Len() - 1; i >= 0; i-- {
		if isErrorType(r.At(i).Type()) {
			return i
		}
	}
	return -1
}

var errflowLib = map[string]bool{
	"io.ReadFull": true, "encoding/hex.DecodeString": true, "encoding/hex.Decode": true, "encoding/base64.Encoding.DecodeString": true,
	"strconv.ParseInt": true, "strconv.ParseUint": true, "encoding/json.Unmarshal": true, "encoding/base32.Encoding.DecodeString": true,
	"fmt.Fscanf": true, "fmt.Sscanf": true,
}

func realRefs(v ssa.Value) []ssa.Instruction {
	var out []ssa.Instruction
	if v.Referrers() == nil {
		return nil
	}
	for _, r := range *v.Referrers() {
		if _, ok := r.(*ssa.DebugRef); ok {
			continue
		}
		out = append(out, r)
	}
	return out
}

func callSig(cl *ssa.Call) *types.Signature {
	return cl.Call.Signature()
}

// errflow runs the rules over the functions of the given packages.
func (c *Ctx) errflow(exc map[string]string, rels ...string) {
	for _, f := range c.moduleFuncs(rels...) {
		c.errflowFunc(f, exc)
	}
}

func (c *Ctx) errflowFunc(f *ssa.Function, exc map[string]string) {
	ord := map[string]int{}
	mk := func(kind string, cl *ssa.Call) string {
		callee := shortQ(callQName(&cl.Call))
		if callee == "" {
			callee = "call through " + shape(cl.Call.Value, 2)
		}
		k := fmt.Sprintf("%s %s %s", fnName(f), kind, callee)
		ord[k]++
		if ord[k] > 1 {
			k = fmt.Sprintf("%s#%d", k, ord[k])
		}
		return k
	}
	report := func(rule, key string, pos token.Pos, okMsg string, bad bool, badMsg string) {
		if !bad {
			c.ok(rule, key, pos, okMsg)
			return
		}
		if why, ok := excLookupS(exc, key); ok {
			c.exc(rule, key, pos, why)
			return
		}
		// the statement was moved, with its reasoned exception, into an unexported helper of the function the
		// exception names (extract-method): the same construct, the same reason (ordinals may shift)
		if caller := soleCaller(f); caller != nil && strings.HasPrefix(key, fnName(f)+" ") {
			base := fnName(caller) + strings.TrimPrefix(key, fnName(f))
			if i := strings.LastIndex(base, "#"); i > 0 {
				base = base[:i]
			}
			var cands []string
			for k := range exc {
				kb := k
				if i := strings.LastIndex(kb, "#"); i > 0 {
					kb = kb[:i]
				}
				if kb == base || eraseNames(kb) == eraseNames(base) {
					cands = append(cands, k)
				}
			}
			if len(cands) > 0 {
				sort.Strings(cands)
				c.exc(rule, key, pos, exc[cands[0]]+" [exception of the same construct in "+fnName(caller)+", whose helper this is]")
				return
			}
		}
		c.bad(rule, key, pos, badMsg)
	}
	// R-deadwrap: an error value is constructed (fmt.Errorf / errors.New) and goes nowhere: its only
	// referrers are phis that nothing reads. That is what `case err := <-ch: if err != nil { err =
	// fmt.Errorf(...) }` compiles to when the `:=` shadows the function's err - the failure is wrapped
	// carefully and then dropped, and the function returns its outer, still nil, err.
	allInstrs(f, func(b *ssa.BasicBlock, in ssa.Instruction) {
		cl, ok := in.(*ssa.Call)
		if !ok {
			return
		}
		q := callQName(&cl.Call)
		if q != "fmt.Errorf" && q != "errors.New" && q != "errors.Join" {
			return
		}
		var dead func(v ssa.Value, d int) bool
		seen := map[ssa.Value]bool{}
		dead = func(v ssa.Value, d int) bool {
			if seen[v] || d > 6 {
				return true
			}
			seen[v] = true
			for _, r := range realRefs(v) {
				ph, ok := r.(*ssa.Phi)
				if !ok {
					return false
				}
				if !dead(ph, d+1) {
					return false
				}
			}
			return true
		}
		if dead(cl, 0) {
			key := mk("R-deadwrap", cl)
			report("E2.R-deadwrap", key, cl.Pos(), "", true, fmt.Sprintf("%s builds an error with %s and assigns it to a variable nobody reads afterwards (a `:=` that shadows the function's err, or a dead assignment): the failure it describes is never returned", fnName(f), shortQ(q)))
		}
	})
	allInstrs(f, func(b *ssa.BasicBlock, in ssa.Instruction) {
		cl, ok := in.(*ssa.Call)
		if !ok {
			return
		}
		sig := callSig(cl)
		if sig == nil {
			return
		}
		ei := errIndex(sig)
		if ei < 0 {
			return
		}
		q := callQName(&cl.Call)
		sc := cl.Call.StaticCallee()
		inMod := (sc != nil && inModule(sc)) || (cl.Call.IsInvoke() && cl.Call.Method.Pkg() != nil && strings.HasPrefix(cl.Call.Method.Pkg().Path(), modPath))
		if !inMod && sc == nil && !cl.Call.IsInvoke() {
			// a call through a function value held in a field of one of the module's own structs
			// (callbacks such as a library resolver): its error obeys the same discipline
			if ld, ok := cl.Call.Value.(*ssa.UnOp); ok && ld.Op == token.MUL {
				if fa, ok := ld.X.(*ssa.FieldAddr); ok {
					if tn, _, ok := fieldOf(fa); ok && tn != "" {
						inMod = true
						q = "(field) " + shape(cl.Call.Value, 2)
					}
				}
			}
		}
		if !inMod && !errflowLib[q] {
			return
		}
		// locate the error value and the other results
		var errVal ssa.Value
		var others []ssa.Value
		if sig.Results().Len() == 1 {
			errVal = cl
		} else {
			for _, r := range realRefs(cl) {
				if ex, ok := r.(*ssa.Extract); ok {
					if ex.Index == ei {
						errVal = ex
					} else {
						others = append(others, ex)
					}
				}
			}
		}
		// R-drop
		key := mk("R-drop", cl)
		dropped := errVal == nil || len(realRefs(errVal)) == 0
		report("E2.R-drop", key, cl.Pos(), "error result is consumed", dropped,
			fmt.Sprintf("error returned by %s is dropped (never tested, returned or passed on) in %s", shortQ(q), fnName(f)))
		// R-deadread: a value read from a cell/bit string that is used but never reaches a sink
		// (return, branch, call argument, store to non-local memory): it was read and then lost.
		for _, o := range others {
			if isStreamRead(q) && len(realRefs(o)) > 0 && !flowsToSink(o) {
				k := mk("R-deadread", cl)
				report("E2.R-deadread", k, cl.Pos(), "", true, fmt.Sprintf("value read from the stream by %s never reaches a return, a branch, a call or a store in %s: the bits are consumed and lost (dead store?)", shortQ(q), fnName(f)))
			} else if isStreamRead(q) && len(realRefs(o)) > 0 {
				k := mk("R-deadread", cl)
				report("E2.R-deadread", k, cl.Pos(), "the value read flows to a return, branch, call or store", false, "")
			}
		}
		if errVal == nil {
			return
		}
		// R-useonfail: other results used where the error is known to be non-nil
		for _, o := range others {
			for _, u := range realRefs(o) {
				if _, isRet := u.(*ssa.Return); isRet {
					continue
				}
				ub := u.Block()
				if phi, ok := u.(*ssa.Phi); ok {
					_ = phi
					continue
				}
				if classifyErr(f, errVal, ub, 0) == errNonNil {
					k := mk("R-useonfail", cl)
					report("E2.R-useonfail", k, u.Pos(), "", true, fmt.Sprintf("result of %s is used at %s on a path where its error is known to be non-nil (inverted error test?)", shortQ(q), c.rel(u.Pos())))
				}
			}
		}
		// R-ignored: the error is tested, but nothing on the failing side ever looks at it - every use
		// of the error value sits where it is known to be nil (typically `if err == nil { return err }`,
		// an inverted test) - and from the failing edge the function can still return without a freshly
		// made error: a failure is carried on as if the call had succeeded.
		if fei := errIndex(f.Signature); fei >= 0 && !consultsError(errVal) {
			handled, applicable := false, true
			var tests []*ssa.If
			for _, u := range realRefs(errVal) {
				if bo, ok := u.(*ssa.BinOp); ok && (bo.Op == token.EQL || bo.Op == token.NEQ) && (isNilConst(bo.X) || isNilConst(bo.Y)) {
					direct := false
					for _, r2 := range realRefs(bo) {
						if iff, ok := r2.(*ssa.If); ok {
							tests = append(tests, iff)
							direct = true
						}
					}
					if !direct {
						applicable = false
					}
					continue
				}
				if _, isPhi := u.(*ssa.Phi); isPhi {
					handled = true
					continue
				}
				if classifyErr(f, errVal, u.Block(), 0) != errNil {
					handled = true
				}
			}
			if applicable && !handled && len(tests) > 0 {
				leak := token.NoPos
				found := false
				for _, iff := range tests {
					bo := iff.Cond.(*ssa.BinOp)
					nn := iff.Block().Succs[0]
					if bo.Op == token.EQL {
						nn = iff.Block().Succs[1]
					}
					for blk := range reachableFrom(nn, nil) {
						if len(blk.Instrs) == 0 {
							continue
						}
						if r, ok := blk.Instrs[len(blk.Instrs)-1].(*ssa.Return); ok {
							if classifyErr(f, retVal(r, fei), blk, 0) != errNonNil {
								found, leak = true, r.Pos()
							}
						}
					}
				}
				k := mk("R-ignored", cl)
				if found && c.guardedInfallibleRead(f, cl) {
					c.ok("E2.R-ignored", k, cl.Pos(), "the read cannot fail here: BitsAvailableForRead() > 0 of the same bit string is tested on the way and nothing in between touches it; the error test that follows only ends the scan")
					return
				}
				report("E2.R-ignored", k, cl.Pos(), "", found, fmt.Sprintf("%s: the error of %s is tested, but it is only ever used where it is known to be nil, and after the failing side of the test the function can return at %s without a new error: the failure is ignored (inverted error test?)", fnName(f), shortQ(q), c.rel(leak)))
			}
		}
		// R-tolerated: a pointer result used where the call's error may still be non-nil (the error
		// test lets some errors through on purpose) and the pointer itself has not been tested: the
		// callee returns a nil pointer together with the tolerated error.
		for _, o := range others {
			if _, isPtr := o.Type().Underlying().(*types.Pointer); !isPtr {
				continue
			}
			for _, u := range realRefs(o) {
				switch x := u.(type) {
				case *ssa.Return, *ssa.Phi, *ssa.Store:
					continue
				case *ssa.BinOp:
					if (x.Op == token.EQL || x.Op == token.NEQ) && (isNilConst(x.X) || isNilConst(x.Y)) {
						continue
					}
				}
				ub := u.Block()
				if classifyErr(f, errVal, ub, 0) == errNil {
					continue
				}
				// was the error tested at all on the way here?
				tested := false
				for _, r := range realRefs(errVal) {
					if bo, ok := r.(*ssa.BinOp); ok && (bo.Op == token.EQL || bo.Op == token.NEQ) && bo.Block().Dominates(ub) {
						tested = true
					}
				}
				if !tested {
					continue
				}
				guarded := false
				for _, ft := range factsAt(f, ub) {
					if isN, eq := nilTest(ft.Cond, o); isN && eq != ft.Truth {
						guarded = true
					}
				}
				k := mk("R-tolerated", cl)
				report("E2.R-tolerated", k, u.Pos(), "pointer result is nil-tested before use on the path where the error is tolerated", !guarded,
					fmt.Sprintf("%s: the pointer returned by %s is used at %s where its error may be non-nil (some errors are let through) and the pointer has not been compared with nil: a tolerated failure hands a nil pointer to the next step", fnName(f), shortQ(q), c.rel(u.Pos())))
			}
		}
	})
	// R-swallow / R-stale on returns
	if f.Signature.Results().Len() == 0 {
		return
	}
	ei := errIndex(f.Signature)
	if ei < 0 {
		return
	}
	n := 0
	for _, r := range returnsOf(f) {
		v := retVal(r, ei)
		// R-stale: returning an error VARIABLE that is provably nil here
		if _, isConst := v.(*ssa.Const); !isConst {
			if classifyErr(f, v, r.Block(), 0) == errNil {
				n++
				key := fmt.Sprintf("%s R-stale return of nil-valued %s", fnName(f), shape(v, 2))
				if n > 1 {
					key = fmt.Sprintf("%s#%d", key, n)
				}
				// benign when every other result is a meaningful value: only flag if another result is a zero/nil constant
				zeroOther := false
				for i, res := range r.Results {
					if i == ei {
						continue
					}
					rv := unspill(res)
					if cst, ok := rv.(*ssa.Const); ok && (cst.Value == nil || cst.Value.String() == "false" || cst.Value.String() == "0") {
						zeroOther = true
					}
				}
				if zeroOther {
					if why, ok := excLookupS(exc, key); ok {
						c.exc("E2.R-stale", key, r.Pos(), why)
					} else {
						c.bad("E2.R-stale", key, r.Pos(), fmt.Sprintf("%s returns a zero value together with an error variable that is provably nil at this point: a failure is reported to the caller as success", fnName(f)))
					}
				}
			}
		}
		// R-swallow: nil error returned inside the err != nil edge of some call's error
		if isNilConst(v) {
			for _, ft := range factsAt(f, r.Block()) {
				if bo, ok := ft.Cond.(*ssa.BinOp); ok && (bo.Op == token.NEQ || bo.Op == token.EQL) {
					var ev ssa.Value
					if isNilConst(bo.Y) && isErrorType(bo.X.Type()) {
						ev = bo.X
					} else if isNilConst(bo.X) && isErrorType(bo.Y.Type()) {
						ev = bo.Y
					}
					if ev == nil {
						continue
					}
					nonNil := (bo.Op == token.NEQ) == ft.Truth
					if !nonNil {
						continue
					}
					// is the failed value handled? allowed when the block (or the path) consults the error (errors.Is / type assertion / comparison)
					if consultsError(ev) {
						continue
					}
					// a fallback that succeeded: after this failure another fallible call was made and ITS error is
					// known to be nil here (try the raw form, then the user-friendly one): nothing is swallowed, the
					// second attempt's success is what is reported
					recovered := false
					for _, f2 := range factsAt(f, r.Block()) {
						b2, ok := f2.Cond.(*ssa.BinOp)
						if !ok || (b2.Op != token.NEQ && b2.Op != token.EQL) {
							continue
						}
						var e2 ssa.Value
						if isNilConst(b2.Y) && isErrorType(b2.X.Type()) {
							e2 = b2.X
						} else if isNilConst(b2.X) && isErrorType(b2.Y.Type()) {
							e2 = b2.Y
						}
						if e2 == nil || e2 == ev || (b2.Op == token.NEQ) == f2.Truth {
							continue // not an error value, the same one, or not known nil
						}
						if in, ok := e2.(ssa.Instruction); ok && in.Block() != nil && edgeDominates(f, ft.Edge, in.Block()) {
							recovered = true
						}
					}
					if recovered {
						continue
					}
					key := fmt.Sprintf("%s R-swallow return nil under %s != nil", fnName(f), shape(ev, 2))
					if why, ok := excLookupS(exc, key); ok {
						c.exc("E2.R-swallow", key, r.Pos(), why)
					} else {
						c.bad("E2.R-swallow", key, r.Pos(), fmt.Sprintf("%s returns a nil error on the path where %s failed", fnName(f), shape(ev, 2)))
					}
				}
			}
		}
	}
}

// consultsError: the error value is inspected by something other than the nil test
// (errors.Is/As, ==/!= against a sentinel, type assertion, method call), i.e. the code
// distinguishes kinds of failure deliberately.
func consultsError(ev ssa.Value) bool {
	for _, r := range realRefs(ev) {
		switch x := r.(type) {
		case *ssa.Call:
			return true
		case *ssa.TypeAssert:
			return true
		case *ssa.BinOp:
			if !isNilConst(x.X) && !isNilConst(x.Y) {
				return true
			}
		case *ssa.MakeInterface, *ssa.ChangeInterface:
			return true
		}
	}
	return false
}

func isStreamRead(q string) bool {
	for _, p := range []string{bocPath + ".Cell.Read", bocPath + ".BitString.Read", bocPath + ".Cell.Pick", bocPath + ".BitString.Pick"} {
		if strings.HasPrefix(q, p) {
			return true
		}
	}
	return false
}

// flowsToSink: does the value (transitively through computations, phis and local memory) reach
// a return, a branch condition, a call argument, a send, a map update or a store to memory that
// is not a local temporary?
func flowsToSink(v ssa.Value) bool {
	seen := map[ssa.Value]bool{}
	var rec func(v ssa.Value, d int) bool
	rec = func(v ssa.Value, d int) bool {
		if seen[v] || d > 60 {
			return false
		}
		seen[v] = true
		for _, r := range realRefs(v) {
			switch x := r.(type) {
			case *ssa.Return, *ssa.If, *ssa.Send, *ssa.MapUpdate, *ssa.Panic, *ssa.Go, *ssa.Defer:
				return true
			case *ssa.Call:
				if b, ok := x.Call.Value.(*ssa.Builtin); ok && b.Name() == "copy" && len(x.Call.Args) == 2 && x.Call.Args[1] == v {
					// the bytes move into the destination: follow it (local temporary) or count it as stored
					base := x.Call.Args[0]
					for {
						switch y := base.(type) {
						case *ssa.Slice:
							base = y.X
							continue
						case *ssa.IndexAddr:
							base = y.X
							continue
						case *ssa.FieldAddr:
							base = y.X
							continue
						}
						break
					}
					if al, ok := base.(*ssa.Alloc); ok && !al.Heap {
						if rec(al, d+1) {
							return true
						}
						continue
					}
					return true
				}
				if b, ok := x.Call.Value.(*ssa.Builtin); ok && (b.Name() == "len" || b.Name() == "cap" || b.Name() == "append" || b.Name() == "copy") {
					if rec(x, d+1) {
						return true
					}
					continue
				}
				return true
			case *ssa.Store:
				if x.Val == v {
					// stored somewhere: local temporary -> follow the memory; anything else is a sink
					base := x.Addr
					for {
						switch y := base.(type) {
						case *ssa.IndexAddr:
							base = y.X
							continue
						case *ssa.FieldAddr:
							base = y.X
							continue
						}
						break
					}
					if al, ok := base.(*ssa.Alloc); ok {
						if rec(al, d+1) {
							return true
						}
						continue
					}
					return true
				}
				// v is the address being stored to: not a use of the value
			case ssa.Value:
				if rec(x, d+1) {
					return true
				}
			}
		}
		return false
	}
	return rec(v, 0)
}

// lossyConversions: on encode paths (MarshalTLB / MarshalTL and what they call inside the package)
// an integer conversion that can change the value (narrowing, or a sign flip at equal width)
// and whose result reaches a wire writer or math/big.NewInt must be proved value-preserving.
func (c *Ctx) lossyConversions(exc map[string]string, rels ...string) {
	const R = "E2.R-lossyconv"
	for _, f := range c.moduleFuncs(rels...) {
		root := f
		for root.Parent() != nil {
			root = root.Parent()
		}
		n := root.Name()
		if !(strings.HasPrefix(n, "Marshal") || strings.HasPrefix(n, "encode") || strings.HasPrefix(n, "Encode")) {
			continue
		}
		ord := map[string]int{}
		allInstrs(f, func(b *ssa.BasicBlock, in ssa.Instruction) {
			cv, ok := in.(*ssa.Convert)
			if !ok || !isInteger(cv.Type()) || !isInteger(cv.X.Type()) {
				return
			}
			if _, isConst := cv.X.(*ssa.Const); isConst {
				return
			}
			sb, db := intBits(cv.X.Type()), intBits(cv.Type())
			su, du := isUnsigned(cv.X.Type()), isUnsigned(cv.Type())
			lossy := db < sb || (db == sb && su != du) || (!su && du)
			if !lossy {
				return
			}
			// a sign flip at equal (or larger) width keeps the bit pattern: harmless for fixed-width wire
			// writers, wrong only where the VALUE matters (math/big)
			signFlipOnly := db >= sb && su != du
			if !reachesWriter(cv, signFlipOnly) {
				return
			}
			key := fmt.Sprintf("%s %s->%s of %s", fnName(f), cv.X.Type(), cv.Type(), shape(cv.X, 2))
			ord[key]++
			if ord[key] > 1 {
				key = fmt.Sprintf("%s#%d", key, ord[key])
			}
			// value-preserving if lo <= x <= hi of the destination type
			p := c.newProver(f, b)
			x := p.lin(cv.X)
			okv := true
			if du {
				okv = p.prove(x) // x >= 0
				if okv && db < 64 {
					okv = p.prove(x.scale(-1).addConst(int64(1)<<uint(db) - 1))
				}
			} else {
				if db < 64 {
					okv = p.prove(x.addConst(int64(1)<<uint(db-1))) && p.prove(x.scale(-1).addConst(int64(1)<<uint(db-1)-1))
				} else {
					// to int64: only an unsigned 64-bit source can overflow; need x <= MaxInt64, i.e. source narrower or bounded
					okv = !su || sb < 64 || p.smallUnsigned(cv.X)
				}
			}
			if okv {
				c.ok(R, key, cv.Pos(), "conversion proved value-preserving at this point")
			} else if why, ok := excLookupS(exc, key); ok {
				c.exc(R, key, cv.Pos(), why)
			} else {
				c.bad(R, key, cv.Pos(), fmt.Sprintf("encode path converts %s to %s without a range check and writes the result: values outside the target range are encoded as something else without an error", cv.X.Type(), cv.Type()))
			}
		})
	}
}

// reachesWriter: the converted value flows (through arithmetic/conversions) into a cell writer,
// encoding/binary Put*, or math/big.NewInt / SetInt64.
func reachesWriter(v ssa.Value, valueSinksOnly bool) bool {
	seen := map[ssa.Value]bool{}
	var rec func(v ssa.Value, d int) bool
	rec = func(v ssa.Value, d int) bool {
		if seen[v] || d > 8 {
			return false
		}
		seen[v] = true
		for _, r := range realRefs(v) {
			switch x := r.(type) {
			case *ssa.Call:
				q := callQName(&x.Call)
				if q == "math/big.NewInt" || q == "math/big.Int.SetInt64" || q == "math/big.Int.SetUint64" {
					return true
				}
				// an in-module helper that hands its integer parameter to math/big (VarUInteger16FromInt64
				// and friends): the value, not the bit pattern, is what it keeps
				if sc := x.Call.StaticCallee(); sc != nil && inModule(sc) && d < 6 {
					for i, a := range x.Call.Args {
						if a == v && i < len(sc.Params) && isInteger(sc.Params[i].Type()) {
							if rec(sc.Params[i], d+3) {
								return true
							}
						}
					}
				}
				if !valueSinksOnly && (strings.HasPrefix(q, bocPath+".Cell.Write") || strings.HasPrefix(q, bocPath+".BitString.Write") || strings.Contains(q, "Endian.PutUint") || strings.Contains(q, "Endian.AppendUint")) {
					return true
				}
			case *ssa.BinOp, *ssa.Convert, *ssa.ChangeType, *ssa.Phi, *ssa.UnOp:
				if rec(x.(ssa.Value), d+1) {
					return true
				}
			}
		}
		return false
	}
	return rec(v, 0)
}

// retainsState: a value of type t can carry something over from a previous decode: it has pointer,
// slice, map or interface parts (the reflective decoder decodes into an existing non-nil pointer in
// place and appends to slices), or it is a tagged union (the sum-type decoder does not clear the
// alternatives it did not select).
func retainsState(t types.Type, depth int) bool {
	if depth > 6 {
		return false
	}
	switch u := t.Underlying().(type) {
	case *types.Pointer, *types.Slice, *types.Map, *types.Interface:
		return true
	case *types.Array:
		return retainsState(u.Elem(), depth+1)
	case *types.Struct:
		for i := 0; i < u.NumFields(); i++ {
			if u.Field(i).Name() == "SumType" {
				return true
			}
			if retainsState(u.Field(i).Type(), depth+1) {
				return true
			}
		}
	}
	return false
}

// freshDecodeTargets: a decode target that is filled inside a loop and then kept (appended, stored)
// must be a fresh variable in every iteration when its type can retain state from the previous one.
func (c *Ctx) freshDecodeTargets(rule string, rels ...string) int {
	n := 0
	// a decode target captured from the enclosing function is one object for every call of the
	// closure: concurrent calls decode into each other, a later call sees the earlier one's fields
	for _, f := range c.moduleFuncs(rels...) {
		if f.Parent() == nil {
			continue
		}
		allInstrs(f, func(b *ssa.BasicBlock, in ssa.Instruction) {
			cl, ok := in.(*ssa.Call)
			if !ok {
				return
			}
			q := callQName(&cl.Call)
			if q != modPath+"/tlb.Unmarshal" && q != modPath+"/tlb.Decoder.Unmarshal" && q != modPath+"/tl.Unmarshal" {
				return
			}
			target := cl.Call.Args[len(cl.Call.Args)-1]
			// follow the destination back through the reflect accessors; a reflect.New / new / local
			// inside the closure is a fresh object (its TYPE may well come from a captured prototype)
			shared := false
			v := target
			for k := 0; k < 8 && v != nil; k++ {
				switch x := v.(type) {
				case *ssa.MakeInterface:
					v = x.X
					continue
				case *ssa.ChangeType:
					v = x.X
					continue
				case *ssa.FreeVar:
					shared = true
				case *ssa.UnOp:
					if x.Op == token.MUL {
						if _, ok := x.X.(*ssa.FreeVar); ok {
							shared = true
						}
					}
				case *ssa.Call:
					switch callQName(&x.Call) {
					case "reflect.Value.Interface", "reflect.Value.Elem", "reflect.Value.Addr", "reflect.Indirect":
						v = x.Call.Args[0]
						continue
					}
				}
				break
			}
			if shared {
				n++
				c.bad(rule, fmt.Sprintf("%s decodes into a value captured from the enclosing function", fnName(f)), cl.Pos(), fmt.Sprintf("%s hands the decoder a destination that was created once in the enclosing function and is shared by every call of this closure: two calls (two goroutines decoding requests of the same kind) write the same object, and what one returns can be the other's request", fnName(f)))
			}
		})
	}
	for _, f := range c.moduleFuncs(rels...) {
		allInstrs(f, func(b *ssa.BasicBlock, in ssa.Instruction) {
			cl, ok := in.(*ssa.Call)
			if !ok || !inLoop(b) {
				return
			}
			q := callQName(&cl.Call)
			if q != modPath+"/tlb.Unmarshal" && q != modPath+"/tlb.Decoder.Unmarshal" && q != modPath+"/tl.Unmarshal" {
				return
			}
			target := cl.Call.Args[len(cl.Call.Args)-1]
			if mi, ok := target.(*ssa.MakeInterface); ok {
				target = mi.X
			}
			al, ok := target.(*ssa.Alloc)
			if !ok {
				return
			}
			et := al.Type().(*types.Pointer).Elem()
			if !retainsState(et, 0) {
				return
			}
			n++
			key := fmt.Sprintf("%s decodes into %s inside a loop", fnName(f), al.Comment)
			// fresh per iteration: the variable's allocation is inside the loop. A variable declared before the
			// loop is fine only if it is not kept (its value is not appended/stored after the decode)
			if inLoop(al.Block()) {
				c.ok(rule, key, cl.Pos(), "the target is a new variable in every iteration")
				return
			}
			kept := false
			for _, r := range realRefs(al) {
				if u, ok := r.(*ssa.UnOp); ok && u.Op == token.MUL && inLoop(u.Block()) {
					for _, r2 := range realRefs(u) {
						switch y := r2.(type) {
						case *ssa.Call:
							if bi, ok := y.Call.Value.(*ssa.Builtin); ok && bi.Name() == "append" {
								kept = true
							}
						case *ssa.Store:
							kept = true
						case *ssa.MakeInterface:
							_ = y
						}
					}
				}
			}
			if kept {
				c.bad(rule, key, cl.Pos(), fmt.Sprintf("%s decodes every element of a list into the single variable %s declared outside the loop and keeps a copy of it: %s has pointer/slice/union parts, which the decoder fills in place, so later elements overwrite or leak into earlier ones", fnName(f), al.Comment, et.String()))
			} else {
				c.ok(rule, key, cl.Pos(), "the variable is declared outside the loop but its value is not kept")
			}
		})
	}
	return n
}

// recvPath: addr is a chain of field selections rooted at the receiver parameter p: returns "A.B".
func recvPath(p *ssa.Parameter, addr ssa.Value) (string, bool) {
	var parts []string
	v := addr
	for {
		switch x := v.(type) {
		case *ssa.FieldAddr:
			_, n, ok := fieldOf(x)
			if !ok {
				return "", false
			}
			parts = append([]string{n}, parts...)
			v = x.X
			continue
		case *ssa.UnOp:
			if x.Op == token.MUL {
				// load of a pointer-typed field then further selection: stop (different object)
				return "", false
			}
		case *ssa.Parameter:
			if x == p && len(parts) > 0 {
				return strings.Join(parts, "."), true
			}
		}
		return "", false
	}
}

// partialAssign: a hand-written decoder that fills some sub-fields of an embedded group
// (a.AddrStd.X, a.AddrStd.Y, …) must fill all of the sub-fields it ever fills of that group on every
// success path through that group: a sub-field assigned only under a condition on the decoded data
// keeps the value of the previous decode when the receiver is reused.
func (c *Ctx) partialAssign(rule string, rels ...string) int {
	n := 0
	for _, f := range c.moduleFuncs(rels...) {
		if (f.Name() != "UnmarshalTLB" && f.Name() != "UnmarshalJSON" && f.Name() != "UnmarshalTL") || len(f.Params) == 0 || f.Parent() != nil {
			continue
		}
		recv := f.Params[0]
		if _, ok := recv.Type().(*types.Pointer); !ok {
			continue
		}
		type ev struct {
			blk *ssa.BasicBlock
			in  ssa.Instruction
		}
		groups := map[string]map[string][]ev{}
		add := func(path string, b *ssa.BasicBlock, in ssa.Instruction) {
			i := strings.Index(path, ".")
			if i < 0 {
				return
			}
			g, sub := path[:i], path[i+1:]
			if groups[g] == nil {
				groups[g] = map[string][]ev{}
			}
			groups[g][sub] = append(groups[g][sub], ev{b, in})
		}
		// a store of the WHOLE receiver (`*a = T{...}`, which go/ssa may turn into "zero *a, then store
		// the literal's fields into *a") or of a whole group (`a.G = ...`) assigns every sub-field
		var whole []ev
		wholeGroup := map[string][]ev{}
		allInstrs(f, func(b *ssa.BasicBlock, in ssa.Instruction) {
			switch x := in.(type) {
			case *ssa.Store:
				if x.Addr == ssa.Value(recv) {
					whole = append(whole, ev{b, in})
				}
				if p, ok := recvPath(recv, x.Addr); ok {
					if !strings.Contains(p, ".") {
						wholeGroup[p] = append(wholeGroup[p], ev{b, in})
					}
					add(p, b, in)
				}
			case *ssa.Call:
				if bi, ok := x.Call.Value.(*ssa.Builtin); ok && bi.Name() == "copy" {
					dst := x.Call.Args[0]
					if sl, ok := dst.(*ssa.Slice); ok {
						if p, ok := recvPath(recv, sl.X); ok {
							add(p, b, in)
						}
					}
				}
			}
		})
		var gnames []string
		for g := range groups {
			gnames = append(gnames, g)
		}
		sort.Strings(gnames)
		for _, g := range gnames {
			subs := groups[g]
			if len(subs) < 2 {
				continue
			}
			n++
			key := fmt.Sprintf("%s fills %s.{%s}", fnName(f), g, strings.Join(sortedKeys(subs), ","))
			var missing []string
			for _, sp := range successPoints(f, 0) {
				have := map[string]bool{}
				for sub, evs := range subs {
					for _, e := range evs {
						if e.blk == sp.Block || e.blk.Dominates(sp.Block) {
							have[sub] = true
						}
					}
				}
				covered := false
				for _, e := range append(append([]ev{}, whole...), wholeGroup[g]...) {
					if e.blk == sp.Block || e.blk.Dominates(sp.Block) {
						covered = true
					}
				}
				if covered || len(have) == 0 || len(have) == len(subs) {
					continue
				}
				for sub := range subs {
					if !have[sub] {
						missing = append(missing, fmt.Sprintf("%s.%s on the success exit at %s", g, sub, c.rel(sp.Ret.Pos())))
					}
				}
			}
			sort.Strings(missing)
			c.check(len(missing) == 0, rule, key, f.Pos(), "every success exit through the group assigns all of its sub-fields", fmt.Sprintf("%s assigns part of %s but not %s: decoding into a reused value keeps the field of the previous decode (e.g. an address without anycast decoded after one with anycast keeps the anycast)", fnName(f), g, strings.Join(missing, "; ")))
		}
	}
	return n
}

func sortedKeys[T any](m map[string]T) []string {
	var out []string
	for k := range m {
		out = append(out, k)
	}
	sort.Strings(out)
	return out
}

// fieldwiseCopy: a method that copies another value of its receiver's type into the receiver field
// by field (recv.a = src.a; recv.b = src.b ...) copies - or deliberately sets - EVERY field. The
// whole-value form `*recv = *src` cannot forget one; the field-wise form can, and the forgotten
// field keeps the receiver's previous (usually zero) value: a cell decoded from JSON loses its
// level mask and hashes as a different cell.
func (c *Ctx) fieldwiseCopy(rule string, rels ...string) int {
	n := 0
	for _, f := range c.moduleFuncs(rels...) {
		if len(f.Params) == 0 || f.Signature.Recv() == nil || f.Parent() != nil {
			continue
		}
		recv := ssa.Value(f.Params[0])
		pt, ok := recv.Type().Underlying().(*types.Pointer)
		if !ok {
			continue
		}
		st, ok := pt.Elem().Underlying().(*types.Struct)
		if !ok || st.NumFields() < 3 {
			continue
		}
		copied := map[ssa.Value]map[int]bool{} // source base -> fields copied from it
		assigned := map[int]bool{}
		allInstrs(f, func(_ *ssa.BasicBlock, in ssa.Instruction) {
			s, ok := in.(*ssa.Store)
			if !ok {
				return
			}
			fa, ok := s.Addr.(*ssa.FieldAddr)
			if !ok || fa.X != recv {
				return
			}
			assigned[fa.Field] = true
			if ld, ok := s.Val.(*ssa.UnOp); ok && ld.Op == token.MUL {
				if sfa, ok := ld.X.(*ssa.FieldAddr); ok && sfa.Field == fa.Field && sfa.X != recv && types.Identical(sfa.X.Type(), recv.Type()) {
					if copied[sfa.X] == nil {
						copied[sfa.X] = map[int]bool{}
					}
					copied[sfa.X][fa.Field] = true
				}
			}
		})
		// calls on the receiver that reset fields (ResetCounters and the like) count as assignments
		allInstrs(f, func(_ *ssa.BasicBlock, in ssa.Instruction) {
			cl, ok := in.(*ssa.Call)
			if !ok {
				return
			}
			sc := cl.Call.StaticCallee()
			if sc == nil || !inModule(sc) || len(cl.Call.Args) == 0 || cl.Call.Args[0] != recv || len(sc.Params) == 0 {
				return
			}
			r2 := ssa.Value(sc.Params[0])
			allInstrs(sc, func(_ *ssa.BasicBlock, in2 ssa.Instruction) {
				if s2, ok := in2.(*ssa.Store); ok {
					if fa2, ok := s2.Addr.(*ssa.FieldAddr); ok {
						if fa2.X == r2 {
							assigned[fa2.Field] = true
						} else if inner, ok := fa2.X.(*ssa.FieldAddr); ok && inner.X == r2 {
							assigned[inner.Field] = true
						}
					}
				}
			})
		})
		for _, fields := range copied {
			if len(fields) < 2 {
				continue
			}
			n++
			var missing []string
			for i := 0; i < st.NumFields(); i++ {
				if !assigned[i] {
					missing = append(missing, st.Field(i).Name())
				}
			}
			c.check(len(missing) == 0, rule, fnName(f)+": field-wise copy covers every field", f.Pos(), fmt.Sprintf("%d fields copied, all %d assigned", len(fields), st.NumFields()), fmt.Sprintf("%s copies %d fields of another value into its receiver one by one but never assigns %s: the copy silently differs from the original in that field (a decoded cell without its level mask has another hash and level)", fnName(f), len(fields), strings.Join(missing, ", ")))
		}
	}
	return n
}

// guardedInfallibleRead: cl is x.ReadBit() and (1) ReadBit fails only where BitsAvailableForRead() < 1 holds for
// its receiver, (2) the call is reached only through the true side of x.BitsAvailableForRead() > 0 on the SAME
// value x, and (3) between that test and the call nothing can change *x: only pure getters, locals, and calls on
// an element of the same slice at a provably different index. Then the error result is nil at this call, and a
// test of it that merely ends a scan ignores nothing.
func (c *Ctx) guardedInfallibleRead(f *ssa.Function, cl *ssa.Call) bool {
	if callQName(&cl.Call) != bocPath+".BitString.ReadBit" || len(cl.Call.Args) != 1 {
		return false
	}
	rb := cl.Call.StaticCallee()
	if rb == nil || len(rb.Blocks) == 0 || len(rb.Params) != 1 {
		return false
	}
	availQ := bocPath + ".BitString.BitsAvailableForRead"
	emptyFact := func(g *ssa.Function, b *ssa.BasicBlock, recv ssa.Value, wantEmpty bool) *ssa.Call {
		for _, ft := range factsAt(g, b) {
			bo, ok := ft.Cond.(*ssa.BinOp)
			if !ok {
				continue
			}
			gc := callOf(bo.X)
			k, isK := constInt(bo.Y)
			if gc == nil || !isK || callQName(&gc.Call) != availQ || gc.Call.Args[0] != recv {
				continue
			}
			op := bo.Op
			if !ft.Truth {
				op = map[token.Token]token.Token{token.LSS: token.GEQ, token.GEQ: token.LSS, token.GTR: token.LEQ, token.LEQ: token.GTR, token.EQL: token.NEQ, token.NEQ: token.EQL}[op]
			}
			empty := (op == token.LSS && k == 1) || (op == token.LEQ && k == 0) || (op == token.EQL && k == 0)
			nonEmpty := (op == token.GTR && k == 0) || (op == token.GEQ && k == 1) || (op == token.NEQ && k == 0)
			if (wantEmpty && empty) || (!wantEmpty && nonEmpty) {
				return gc
			}
		}
		return nil
	}
	// (1)
	ei := errIndex(rb.Signature)
	nFail := 0
	for _, r := range returnsOf(rb) {
		if ei < 0 || !isFailureValue(rb, retVal(r, ei), r.Block()) {
			if ei >= 0 && !isNilConst(retVal(r, ei)) {
				return false // an error that is neither definitely nil nor definitely set
			}
			continue
		}
		nFail++
		if emptyFact(rb, r.Block(), rb.Params[0], true) == nil {
			return false
		}
	}
	// (2)
	recv := cl.Call.Args[0]
	G := emptyFact(f, cl.Block(), recv, false)
	if G == nil || !G.Block().Dominates(cl.Block()) {
		return false
	}
	// (3) the blocks between the test and the call, without going round through the test again
	cut := map[edge]bool{}
	for _, p := range G.Block().Preds {
		for i, sb := range p.Succs {
			if sb == G.Block() {
				cut[edge{p, i}] = true
			}
		}
	}
	fwd := reachableFrom(G.Block(), cut)
	region := map[*ssa.BasicBlock]bool{}
	for b := range fwd {
		if b == cl.Block() || reachableFrom(b, cut)[cl.Block()] {
			region[b] = true
		}
	}
	pure := func(x *ssa.Call) bool {
		if _, isB := x.Call.Value.(*ssa.Builtin); isB {
			return true
		}
		h := x.Call.StaticCallee()
		if h == nil || !inModule(h) || len(h.Blocks) == 0 {
			return false
		}
		okp := true
		allInstrs(h, func(_ *ssa.BasicBlock, in ssa.Instruction) {
			switch in.(type) {
			case *ssa.Store, *ssa.MapUpdate, *ssa.Call, *ssa.Send, *ssa.Go, *ssa.Defer:
				okp = false
			}
		})
		return okp
	}
	distinct := func(x *ssa.Call, at *ssa.BasicBlock) bool {
		if x.Call.IsInvoke() || len(x.Call.Args) != 1 {
			return false
		}
		a, okA := recv.(*ssa.IndexAddr)
		b, okB := x.Call.Args[0].(*ssa.IndexAddr)
		if !okA || !okB || a.X != b.X {
			return false
		}
		p := c.newProver(f, at)
		d := p.lin(a.Index).sub(p.lin(b.Index))
		return p.prove(d.addConst(-1)) || p.prove(d.scale(-1).addConst(-1))
	}
	for b := range region {
		started := b != G.Block()
		for _, in := range b.Instrs {
			if in == ssa.Instruction(G) {
				started = true
				continue
			}
			if !started {
				continue
			}
			if in == ssa.Instruction(cl) {
				break
			}
			switch x := in.(type) {
			case *ssa.Call:
				if !pure(x) && !distinct(x, b) {
					return false
				}
			case *ssa.Store:
				if _, isLocal := x.Addr.(*ssa.Alloc); !isLocal {
					return false
				}
			case *ssa.MapUpdate, *ssa.Send, *ssa.Go, *ssa.Defer:
				return false
			}
		}
	}
	return nFail >= 0
}
