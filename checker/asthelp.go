package main

import (
	"go/ast"
	"go/constant"
	"go/token"
	"go/types"
	"strings"

	"golang.org/x/tools/go/packages"
)

// literalInts returns the integer elements of the composite literal assigned to the package-level
// variable name in declaration d.
func literalInts(p *packages.Package, d ast.Decl, name string) []int64 {
	gd, ok := d.(*ast.GenDecl)
	if !ok || gd.Tok != token.VAR {
		return nil
	}
	var out []int64
	for _, sp := range gd.Specs {
		vs := sp.(*ast.ValueSpec)
		for i, n := range vs.Names {
			if n.Name != name || i >= len(vs.Values) {
				continue
			}
			cl, ok := vs.Values[i].(*ast.CompositeLit)
			if !ok {
				continue
			}
			for _, e := range cl.Elts {
				if tv, ok := p.TypesInfo.Types[e]; ok && tv.Value != nil {
					if v, ok := constant.Int64Val(tv.Value); ok {
						out = append(out, v)
					}
				}
			}
		}
	}
	return out
}

// mapLiteralStrings reads a package-level map[string]string literal.
func (c *Ctx) mapLiteralStrings(rel, name string) map[string]string {
	p := c.pkg(rel)
	out := map[string]string{}
	if p == nil {
		return out
	}
	for _, f := range p.Syntax {
		for _, d := range f.Decls {
			gd, ok := d.(*ast.GenDecl)
			if !ok || gd.Tok != token.VAR {
				continue
			}
			for _, sp := range gd.Specs {
				vs := sp.(*ast.ValueSpec)
				for i, n := range vs.Names {
					if n.Name != name || i >= len(vs.Values) {
						continue
					}
					cl, ok := vs.Values[i].(*ast.CompositeLit)
					if !ok {
						continue
					}
					for _, e := range cl.Elts {
						kv, ok := e.(*ast.KeyValueExpr)
						if !ok {
							continue
						}
						k, ok1 := p.TypesInfo.Types[kv.Key]
						v, ok2 := p.TypesInfo.Types[kv.Value]
						if ok1 && ok2 && k.Value != nil && v.Value != nil {
							out[strings.Trim(k.Value.ExactString(), "\"")] = strings.Trim(v.Value.ExactString(), "\"")
						}
					}
				}
			}
		}
	}
	return out
}

// constObjEquals: package-level constant name has the integer value w.
func constObjEquals(p *packages.Package, name string, w int64) bool {
	o := p.Types.Scope().Lookup(name)
	if o == nil {
		return false
	}
	cst, ok := o.(interface{ Val() constant.Value })
	if !ok {
		return false
	}
	v, ok := constant.Int64Val(cst.Val())
	return ok && v == w
}

func constStrEquals(p *packages.Package, name string, w string) bool {
	o := p.Types.Scope().Lookup(name)
	k, ok := o.(*types.Const)
	if !ok || k.Val().Kind() != constant.String {
		return false
	}
	return constant.StringVal(k.Val()) == w
}
