#!/bin/sh
# builds the static checker offline from files on disk only
cd "$(dirname "$0")" || exit 2
export GOFLAGS=-mod=mod GOPROXY=off GOSUMDB=off GOTOOLCHAIN=local GOWORK=off
mkdir -p bin evidence
cd checker && go build -o ../bin/tongocheck . && echo "built bin/tongocheck"
