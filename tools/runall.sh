#!/bin/bash
# runs every claimed check (quick) and validates evidence; prints one line per property
cd /verif
for p in $(python3 -c "import json;print(' '.join(c['property_id'] for c in json.load(open('MANIFEST.json'))['checks']))"); do
  out=$(./check.sh $p ${1:-quick} 2>&1); rc=$?
  v=$(python3-vt -c "
import json,jsonschema,sys
try:
    jsonschema.validate(json.load(open('evidence/$p.json')),json.load(open('/root/.vp/EVIDENCE.schema.json'))); print('evidence-ok')
except Exception as e: print('EVIDENCE-INVALID',str(e)[:100])")
  echo "$p rc=$rc $v $(echo "$out" | grep '^property=' | sed 's/.*obligations/obligations/')"
done
