#!/bin/bash
# usage: tools/selftest_crash.sh : the fail-closed path of tongocheck. With TONGOCHECK_SELFTEST_CRASH set the
# analysis child dies of a Go stack overflow (unrecoverable); the supervisor must then report the property as
# undecided: a VIOLATION line, exit 1 and schema-valid evidence (written to a scratch VERIF_DIR).
cd /verif
d=$(mktemp -d); mkdir -p $d/evidence; cp -r spec $d/; cp known_findings.json manifest_src.json $d/
out=$(TONGOCHECK_SELFTEST_CRASH=1 VERIF_DIR=$d bin/tongocheck -prop C06 -tier quick 2>/dev/null); rc=$?
echo "$out" | grep -q "^VIOLATION property=C06 " && [ $rc -eq 1 ] && python3-vt -c "
import json,jsonschema,sys
jsonschema.validate(json.load(open('$d/evidence/C06.json')),json.load(open('/root/.vp/EVIDENCE.schema.json')))" && echo "SELFTEST-CRASH ok: a dead analysis process is reported as an E0.undecided violation (exit 1, valid evidence)" || { echo "SELFTEST-CRASH FAILED rc=$rc"; rm -rf $d; exit 1; }
rm -rf $d
