#!/bin/bash
# Second behaviour-preserving variant: common idiom swaps (clone idioms, equality idioms, errors.Is,
# a hoisted limit, reordered independent checks). All 20 checks must stay silent.
export GOFLAGS=-mod=mod GOPROXY=off GOSUMDB=off GOTOOLCHAIN=local GOWORK=off
r=/tmp/benign2-repo; v=/tmp/benign2-verif
rm -rf $r $v; mkdir -p $v/evidence; rsync -a --exclude .git /repo/ $r/; cp -r /verif/spec $v/; cp /verif/known_findings.json $v/
cd $r
python3 - <<'PY'
import re
def sub(fn, a, b):
    p=open(fn).read()
    assert a in p, (fn, a)
    open(fn,'w').write(p.replace(a,b,1))
# clone idiom
sub('boc/bitString.go','	s.buf = make([]byte, len(arr))\n	copy(s.buf, arr)\n','	s.buf = append([]byte(nil), arr...)\n')
# equality idiom
sub('liteclient/adnl.go','	if !bytes.Equal(data[length-32:], p.hash()) {','	if subtle.ConstantTimeCompare(data[length-32:], p.hash()) != 1 {')
sub('liteclient/adnl.go','import (','import (\n\t"crypto/subtle"')
sub('liteclient/adnl.go','\t"bytes"\n','')
# errors.Is
sub('tlb/block.go','	if err != nil && err != boc.ErrNotEnoughRefs {','	if err != nil && !errors.Is(err, boc.ErrNotEnoughRefs) {')
# hoisted limit
sub('wallet/wallet.go','	if len(internalMessages) > w.intWallet.maxMessageNumber() {\n		return ton.Bits256{}, fmt.Errorf("%v wallet support up to %v internal messages", w.ver, w.intWallet.maxMessageNumber())','	if limit := w.intWallet.maxMessageNumber(); len(internalMessages) > limit {\n		return ton.Bits256{}, fmt.Errorf("%v wallet support up to %v internal messages", w.ver, limit)')
# wrapped errors
sub('tonconnect/server.go','	parsed, err := convertTonProofMessage(tp)\n	if err != nil {\n		return false, nil, err\n	}','	parsed, err := convertTonProofMessage(tp)\n	if err != nil {\n		return false, nil, fmt.Errorf("malformed proof: %w", err)\n	}')
# inverted verification test
sub('wallet/messages.go','	if ed25519.Verify(publicKey, hash, body.Sign[:]) {\n		return nil\n	}\n	return ErrBadSignature','	if !ed25519.Verify(publicKey, hash, body.Sign[:]) {\n		return ErrBadSignature\n	}\n	return nil')
# hmac.Equal instead of ConstantTimeCompare
sub('tonconnect/server.go','	if subtle.ConstantTimeCompare(bytesPayload[16:], computedSignature[:16]) != 1 {','	if !hmac.Equal(bytesPayload[16:], computedSignature[:16]) {')
sub('tonconnect/server.go','\t"crypto/subtle"\n','')
# field-wise construction instead of a literal
sub('wallet/wallet_v3.go','''	body := MessageV3{
		SubWalletId: w.subWalletID,
		ValidUntil:  uint32(msgConfig.ValidUntil.Unix()),
		Seqno:       msgConfig.Seqno,
		RawMessages: PayloadV1toV4(internalMessages),
	}''','''	var body MessageV3
	body.SubWalletId = w.subWalletID
	body.Seqno = msgConfig.Seqno
	body.ValidUntil = uint32(msgConfig.ValidUntil.Unix())
	body.RawMessages = PayloadV1toV4(internalMessages)''')
PY
grep -q '"errors"' tlb/block.go || sed -i '0,/^import (/s//import (\n\t"errors"/' tlb/block.go
gofmt -w wallet/messages.go boc/bitString.go liteclient/adnl.go tlb/block.go wallet/wallet.go wallet/wallet_v3.go tonconnect/server.go
go build ./boc/ ./tlb/ ./wallet/ ./tonconnect/ ./liteclient/ ./liteapi/... ./ton/ . || { echo "BENIGN2 variant does not build"; exit 2; }
go test -count=1 ./tlb/ ./ton/ ./tl/ >/dev/null 2>&1 || echo "note: package tests of the variant fail"
cd /verif
bad=0
for p in C01 C02 C03 C04 C05 C06 C07 C08 C09 C10 C11 C12 C13 C14 C15 C16 C17 C18 C19 C20; do
  out=$(TONGO_REPO=$r VERIF_DIR=$v ${TONGOCHECK:-bin/tongocheck} -prop $p 2>&1); rc=$?
  if [ $rc -ne 0 ]; then bad=1; echo "$p rc=$rc"; echo "$out" | grep "^  " | head -6 | cut -c1-260; fi
done
rm -rf $r $v
[ $bad -eq 0 ] && echo "BENIGN2: all 20 checks silent on the idiom-swap variant"
exit $bad
