#!/bin/bash
# usage: confirm_seed.sh <seed dir e.g. /tmp/seed-C11/A> ; confirms in a scratch worktree that
# (1) the demo passes on the clean tree, (2) fails with the patch, (3) touched packages still build and
# their existing tests give the same pass/fail set as the clean tree. Writes <seed dir>/confirm.txt
set -u
export GOFLAGS=-mod=mod GOPROXY=off GOSUMDB=off GOTOOLCHAIN=local GOWORK=off
d="$1"; tag=$(echo "$d" | tr '/' '_')
wt=/tmp/cf$tag
git -C /repo worktree remove --force "$wt" >/dev/null 2>&1
git -C /repo worktree add --detach "$wt" HEAD >/dev/null 2>&1 || { echo "worktree failed"; exit 2; }
meta="$d/meta.json"
demo_dir=$(python3 -c "import json;print(json.load(open('$meta'))['demo_dir'].strip('/').lstrip('./'))")
demo_cmd=$(python3 -c "import json;print(json.load(open('$meta'))['demo_cmd'])")
pkgs=$(python3 -c "
import json,os
m=json.load(open('$meta'))
s=set(os.path.dirname(f) or '.' for f in m['touched_files'])
print(' '.join('./'+p if p!='.' else '.' for p in sorted(s)))")
out="$d/confirm.txt"; : > "$out"
cp "$d/demo_test.go" "$wt/$demo_dir/zz_demo_test.go"
cd "$wt"
echo "== clean demo: $demo_cmd" >> "$out"
( timeout 300 bash -c "$demo_cmd" ) >> "$out" 2>&1; c1=$?
echo "exit=$c1" >> "$out"
# baseline tests of touched pkgs (list of test results)
rm "$wt/$demo_dir/zz_demo_test.go"
timeout 900 go test -count=1 -vet=off -json -skip 'TestGetSeqno' $pkgs 2>/dev/null | python3 -c "
import sys,json
r={}
for l in sys.stdin:
    try: e=json.loads(l)
    except: continue
    if e.get('Action') in('pass','fail') and e.get('Test'): r[e['Package']+'::'+e['Test']]=e['Action']
for k in sorted(r): print(k,r[k])" > /tmp/cfbase$tag.txt
git apply "$d/patch.diff" >> "$out" 2>&1 || { echo "PATCH DOES NOT APPLY" >> "$out"; }
go build $pkgs >> "$out" 2>&1; cb=$?
echo "== build with patch exit=$cb" >> "$out"
timeout 900 go test -count=1 -vet=off -json -skip 'TestGetSeqno' $pkgs 2>/dev/null | python3 -c "
import sys,json
r={}
for l in sys.stdin:
    try: e=json.loads(l)
    except: continue
    if e.get('Action') in('pass','fail') and e.get('Test'): r[e['Package']+'::'+e['Test']]=e['Action']
for k in sorted(r): print(k,r[k])" > /tmp/cfpatch$tag.txt
if diff -q /tmp/cfbase$tag.txt /tmp/cfpatch$tag.txt >/dev/null; then same=yes; else same=no; diff /tmp/cfbase$tag.txt /tmp/cfpatch$tag.txt >> "$out"; fi
echo "== existing tests of touched pkgs identical: $same ($(wc -l < /tmp/cfbase$tag.txt) results)" >> "$out"
cp "$d/demo_test.go" "$wt/$demo_dir/zz_demo_test.go"
echo "== patched demo" >> "$out"
( timeout 300 bash -c "$demo_cmd" ) >> "$out" 2>&1; c2=$?
echo "exit=$c2" >> "$out"
cd /
git -C /repo worktree remove --force "$wt" >/dev/null 2>&1
rm -f /tmp/cfbase$tag.txt /tmp/cfpatch$tag.txt
verdict=REJECT
if [ $c1 -eq 0 ] && [ $c2 -ne 0 ] && [ $cb -eq 0 ] && [ $same = yes ]; then verdict=CONFIRMED; fi
echo "VERDICT $verdict clean=$c1 patched=$c2 build=$cb same=$same" >> "$out"
echo "$d $verdict clean=$c1 patched=$c2 build=$cb same=$same"
