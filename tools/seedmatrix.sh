#!/bin/bash
# usage: tools/seedmatrix.sh [seed ids...] : for every stored seed, apply it to a scratch copy of
# /repo (never to /repo itself), run all 20 checks against the copy, and print which fire.
# Scratch copies live under /tmp and are removed as soon as a seed is done.
cd /verif
export GOFLAGS=-mod=mod GOPROXY=off GOSUMDB=off GOTOOLCHAIN=local GOWORK=off
[ -x bin/tongocheck ] || ./setup.sh >/dev/null
seeds="$@"; [ -z "$seeds" ] && seeds=$(ls seeded | grep "^C[0-9][0-9]-")
one() {
  id=$1
  r=/tmp/sm-repo-$id; v=/tmp/sm-verif-$id
  rm -rf $r $v; mkdir -p $v/evidence
  rsync -a --exclude .git /repo/ $r/
  cp -r /verif/spec $v/; cp /verif/known_findings.json $v/
  if ! (cd $r && patch -s -p1 < /verif/seeded/$id/patch.diff); then echo "SEED $id: patch does not apply"; rm -rf $r $v; return; fi
  fired=""
  for p in C01 C02 C03 C04 C05 C06 C07 C08 C09 C10 C11 C12 C13 C14 C15 C16 C17 C18 C19 C20; do
    out=$(TONGO_REPO=$r VERIF_DIR=$v /verif/bin/tongocheck -prop $p 2>&1); rc=$?
    if [ $rc -eq 1 ]; then
      rules=$(echo "$out" | grep "^  rule=" | sed 's/^  rule=\([^ ]*\).*/\1/' | sort -u | tr '\n' ',' | sed 's/,$//')
      fired="$fired $p[$rules]"
    elif [ $rc -ge 2 ]; then fired="$fired $p(ERR$rc)"; fi
  done
  rm -rf $r $v
  echo "SEED $id fired:${fired:- none}"
}
export -f one
printf '%s\n' $seeds | xargs -P 8 -I{} bash -c 'one {}' | sort
