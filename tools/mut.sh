#!/bin/bash
# tools/mut.sh <prop[,prop]> <file> <sed-expr> : apply a one-line mutation to /repo, run check(s), restore.
export GOFLAGS=-mod=mod GOPROXY=off GOSUMDB=off GOTOOLCHAIN=local
props=$1; file=$2; expr=$3
cd /repo && cp "$file" /tmp/mut.bak && sed -i "$expr" "$file"
if cmp -s "$file" /tmp/mut.bak; then echo "MUT no-op: $expr"; exit 2; fi
if ! go build ./$(dirname "$file")/ 2>/tmp/mut.build; then echo "MUT does not build"; head -3 /tmp/mut.build; cp /tmp/mut.bak "$file"; exit 2; fi
fired=""
for p in ${props//,/ }; do
  out=$(cd /verif && bin/tongocheck -prop $p 2>&1)
  if echo "$out" | grep -q "^VIOLATION"; then fired="$fired $p"; echo "$out" | grep -A3 "^VIOLATION" | grep -v "^VIOLATION\|^--" | head -4 | cut -c1-220; fi
done
cp /tmp/mut.bak "$file"
echo "MUT [$expr] fired:${fired:- none}"
