#!/bin/bash
# usage: tools/seedmatrix_fast.sh [seed ids...] : like seedmatrix.sh, but evaluates the 20 properties
# of a seed in ONE process (tongocheck -sweep: the program is loaded once), ~4 min for all seeds.
# The quick tier only; verdicts are the same as 20 separate runs (same rules, same ledger).
cd /verif
export GOFLAGS=-mod=mod GOPROXY=off GOSUMDB=off GOTOOLCHAIN=local GOWORK=off
[ -x bin/tongocheck ] || ./setup.sh >/dev/null
seeds="$@"; [ -z "$seeds" ] && seeds=$(ls seeded | grep "^C[0-9][0-9]-")
one() {
  id=$1
  r=/tmp/smf-repo-$id; v=/tmp/smf-verif-$id
  rm -rf $r $v; mkdir -p $v/evidence
  rsync -a --exclude .git /repo/ $r/
  cp -r /verif/spec $v/; cp /verif/known_findings.json $v/
  if ! (cd $r && patch -s -p1 < /verif/seeded/$id/patch.diff); then echo "SEED $id: patch does not apply"; rm -rf $r $v; return; fi
  out=$(TONGO_REPO=$r VERIF_DIR=$v ${TONGOCHECK_BIN:-/verif/bin/tongocheck} -sweep 2>&1); rc=$?
  rm -rf $r $v
  if [ $rc -ge 2 ]; then echo "SEED $id fired: (ERR$rc)"; return; fi
  fired=$(echo "$out" | awk '/^SWEEP / && $3 != "" {printf " %s[%s]", $2, $3}')
  echo "SEED $id fired:${fired:- none}"
}
export -f one
printf '%s\n' $seeds | xargs -P 8 -I{} bash -c 'one {}' | sort
