#!/bin/bash
# re-confirms every stored seed against /repo's current HEAD (scratch worktrees, 6 in parallel)
cd /verif
ls -d seeded/C*-* | xargs -P 6 -I{} tools/confirm_seed.sh /verif/{} 2>&1 | grep -v "^WARNING" | sort
