#!/bin/bash
# usage: tools/refdetail.sh <id> : apply benign_refactors/<id> to a scratch copy and print every violation the sweep sees
export GOFLAGS=-mod=mod GOPROXY=off GOSUMDB=off GOTOOLCHAIN=local GOWORK=off
id=$1; tag=$(echo $id | tr / _); r=/tmp/rd-repo-$tag; v=/tmp/rd-verif-$tag
rm -rf $r $v; mkdir -p $v/evidence; rsync -a --exclude .git /repo/ $r/
cp -r /verif/spec $v/; cp /verif/known_findings.json /verif/manifest_src.json $v/
(cd $r && patch -s -p1 < /verif/benign_refactors/$id/patch.diff) || echo "PATCH FAILED"
SWEEP_VERBOSE=1 TONGO_REPO=$r VERIF_DIR=$v ${TONGOCHECK_BIN:-/verif/bin/tongocheck} -sweep 2>&1 | grep -v "^SWEEP C[0-9]* $" | sed "s#$r/##g"
rm -rf $r $v
