#!/bin/bash
# usage: tools/benign3.sh [ids...] : the third benign battery. /verif/benign_refactors/<id>/patch.diff
# are behaviour-preserving refactorings of the anchor code written by independent sub-agents (given
# only the property text and asked for edits that change nothing observable). Each is applied to a
# scratch copy of /repo; the copy must build and every check must stay silent (tongocheck -sweep).
cd /verif
export GOFLAGS=-mod=mod GOPROXY=off GOSUMDB=off GOTOOLCHAIN=local GOWORK=off
[ -x bin/tongocheck ] || ./setup.sh >/dev/null
ids="$@"; [ -z "$ids" ] && ids=$(ls benign_refactors 2>/dev/null | grep "^C[0-9][0-9]-")
one() {
  id=$1
  r=/tmp/b3-repo-$id; v=/tmp/b3-verif-$id
  rm -rf $r $v; mkdir -p $v/evidence
  rsync -a --exclude .git /repo/ $r/
  cp -r /verif/spec $v/; cp /verif/known_findings.json /verif/manifest_src.json $v/ 2>/dev/null
  if ! (cd $r && patch -s -p1 < /verif/benign_refactors/$id/patch.diff); then echo "REFAC $id: patch does not apply"; rm -rf $r $v; return; fi
  out=$(TONGO_REPO=$r VERIF_DIR=$v ${TONGOCHECK_BIN:-/verif/bin/tongocheck} -sweep 2>&1); rc=$?
  rm -rf $r $v
  if [ $rc -ge 2 ]; then echo "REFAC $id: (ERR$rc) $(echo "$out" | tail -1 | cut -c1-160)"; return; fi
  fired=$(echo "$out" | awk '/^SWEEP / && $3 != "" {printf " %s[%s]", $2, $3}')
  echo "REFAC $id fired:${fired:- none}"
}
export -f one
printf '%s\n' $ids | xargs -P 8 -I{} bash -c 'one {}' | sort > /tmp/benign3.out
cat /tmp/benign3.out
n=$(grep -c "fired: none" /tmp/benign3.out); t=$(wc -l < /tmp/benign3.out)
if [ "$n" = "$t" ]; then echo "BENIGN3: all 20 checks silent on all $t refactorings"; else echo "BENIGN3: $((t-n)) of $t refactorings raise an alarm"; exit 1; fi
