#!/bin/bash
# Builds a behaviour-preserving variant of /repo in a scratch directory (renames of parameters, locals
# and unexported fields through gofmt -r; nothing else), checks that it still builds and that its
# own package tests still pass, and runs all 20 checks against it. Every check must stay silent:
# the rules may not depend on what a variable is called.
export GOFLAGS=-mod=mod GOPROXY=off GOSUMDB=off GOTOOLCHAIN=local GOWORK=off
r=/tmp/benign-repo; v=/tmp/benign-verif
rm -rf $r $v; mkdir -p $v/evidence; rsync -a --exclude .git /repo/ $r/; cp -r /verif/spec $v/; cp /verif/known_findings.json $v/
cd $r
rw() { f=$1; shift; for rule in "$@"; do gofmt -r "$rule" -w $f || echo "gofmt failed: $f $rule"; done; }
rw wallet/wallet.go 'options -> cfg' 'opts -> oo' 'internalMessages -> msgs' 'msgConfig -> mc' 'waitingConfirmation -> waitFor' 'validUntil -> deadline' 'signedBodyCell -> signed' 'extMsgCell -> envelope'
rw wallet/wallet_v3.go 'options -> cfg' 'internalMessages -> msgs' 'msgConfig -> mc' 'privateKey -> sk' 'bodyCell -> bc'
rw wallet/wallet_v4.go 'opts -> cfg' 'internalMessages -> msgs' 'msgConfig -> mc' 'privateKey -> sk' 'bodyCell -> bc'
rw wallet/wallet_v5.go 'opts -> cfg' 'internalMessages -> msgs' 'msgConfig -> mc' 'privateKey -> sk' 'bodyCell -> bc' 'extensionsActions -> ext'
rw wallet/wallet_v5_beta.go 'opts -> cfg' 'internalMessages -> msgs' 'msgConfig -> mc' 'privateKey -> sk' 'bodyCell -> bc'
rw wallet/wallet_highload_v2.go 'options -> cfg' 'internalMessages -> msgs' 'msgConfig -> mc' 'privateKey -> sk' 'bodyCell -> bc' 'boundedID -> qid'
rw wallet/wallets_common.go 'bodyCell -> bc' 'privateKey -> sk' 'stateInit -> si' 'workchain -> wc' 'signBytes -> sig'
rw wallet/messages.go 'msgBody -> mb' 'publicKey -> pk' 'totalBits -> tot'
rw tonconnect/server.go 'message -> pm' 'parsed -> pp' 'accountID -> acct' 'pubKey -> key' 'bytesPayload -> raw'
rw liteclient/adnl.go 'decryptor -> dec' 'data -> frame'
rw liteapi/pool/conn_pool.go 'maxSeqno -> newest' 'bestConn -> best' 'masterSeqno -> ms'
rw ton/account.go 'aa -> acc' 'checksum -> sum'
rw boc/boc.go 'cellCount -> nCells' 'refBitSize -> rbits' 'refByteSize -> rbytes' 'offsetByteSize -> obytes' 'offsetBitSize -> obits' 'sizeBytes -> szb' 'hasCacheBits -> cbits' 'cellsCount -> ncells' 'rootsCount -> nroots' 'cellData -> cellBytes' 'refsArray -> refIdx'
rw boc/immutable_cell.go 'imm -> im' 'depth -> dep' 'hashIndex -> hidx'
rw tlb/hashmap.go 'shortest -> minLen' 'leftKeys -> lk' 'rightKeys -> rk' 'keySize -> ksz'
rw tlb/tags.go 'separatorPlace -> sepAt'
go build ./boc/ ./tlb/ ./wallet/ ./tonconnect/ ./liteclient/ ./liteapi/... ./ton/ . || { echo "BENIGN variant does not build"; exit 2; }
go test -count=1 ./tlb/ ./ton/ ./tl/ ./liteapi/pool/ -run 'Test[^G]' >/dev/null 2>&1 || echo "note: some package tests of the variant fail (network tests expected)"
cd /verif
bad=0
for p in C01 C02 C03 C04 C05 C06 C07 C08 C09 C10 C11 C12 C13 C14 C15 C16 C17 C18 C19 C20; do
  out=$(TONGO_REPO=$r VERIF_DIR=$v ${TONGOCHECK:-bin/tongocheck} -prop $p 2>&1); rc=$?
  if [ $rc -ne 0 ]; then bad=1; echo "$p rc=$rc"; echo "$out" | grep "^  " | head -6 | cut -c1-240; fi
done
rm -rf $r $v
[ $bad -eq 0 ] && echo "BENIGN: all 20 checks silent on the renamed variant"
exit $bad
