#!/usr/bin/env python3
"""Mutation battery: one-token mutants of the anchor files. For each mutant that still builds and
passes the offline tests of its package, run the checks of the properties anchored in that file and
record whether any fires (all 20 properties in one process: tongocheck -sweep). Survivors (tests pass, checks silent) are listed for manual triage.
usage: tools/mutate.py <out.jsonl> [file ...]     (scratch copies under /tmp/mut-*, removed after use)"""
import os, re, sys, json, subprocess, shutil, hashlib
from concurrent.futures import ThreadPoolExecutor

ENV = dict(os.environ, GOFLAGS='-mod=mod', GOPROXY='off', GOSUMDB='off', GOTOOLCHAIN='local', GOWORK='off')
FILES = {
 'boc/boc.go': 'C01 C07', 'boc/cell.go': 'C02 C06 C07', 'boc/bitString.go': 'C06 C07', 'boc/immutable_cell.go': 'C02 C07 C18',
 'boc/level_mask.go': 'C01 C02', 'boc/merkle_proof.go': 'C18', 'boc/hasher.go': 'C02',
 'tlb/hashmap.go': 'C05 C18', 'tlb/primitives.go': 'C03 C04', 'tlb/messages.go': 'C03 C04 C16 C20', 'tlb/models.go': 'C03 C20',
 'tlb/encoder.go': 'C03 C04', 'tlb/decoder.go': 'C03 C08', 'tlb/transactions.go': 'C04 C16', 'tlb/account.go': 'C15',
 'tl/encoder.go': 'C10', 'tl/decoder.go': 'C08 C10',
 'liteclient/adnl.go': 'C11 C17', 'liteclient/client.go': 'C08 C12', 'liteclient/connection.go': 'C12', 'liteclient/encrypted_conn.go': 'C11',
 'liteapi/pool/conn_pool.go': 'C13', 'liteapi/pool/connection.go': 'C13',
 'wallet/wallet.go': 'C14 C15', 'wallet/messages.go': 'C14', 'wallet/wallets_common.go': 'C14 C15', 'wallet/wallet_v3.go': 'C14 C15',
 'wallet/wallet_v4.go': 'C14 C15', 'wallet/wallet_v5.go': 'C14 C15', 'wallet/wallet_v5_beta.go': 'C14 C15', 'wallet/wallet_highload_v2.go': 'C14 C15',
 'tlb/stack.go': 'C03 C08', 'tlb/tags.go': 'C03 C04', 'tlb/proof.go': 'C05 C18', 'wallet/models.go': 'C14 C15', 'liteapi/client.go': 'C08 C16', 'ton/bits.go': 'C17 C20',
 'ton/account.go': 'C17 C19', 'ton/shards.go': 'C17', 'ton/block.go': 'C04 C14 C17', 'tonconnect/server.go': 'C19', 'utils/crc16.go': 'C17',
}
SKIP = {'wallet': 'TestGetSeqno|TestGetW5|TestSimpleSend', 'liteclient': 'Test.*Client|TestGeneratedMethod|TestNewClient|TestClient', 'liteapi/pool': 'Test_connection|TestNewConnPool|TestConn.*Network', 'tonconnect': 'TestCreateSignedProof|TestExpirePayload|TestGenerateAndVerifyPayload', 'boc': 'TestDeserializeBoc'}
OPS = [
 (r'<=', '<'), (r'>=', '>'), (r'(?<![<>=!-])<(?![=<-])', '<='), (r'(?<![<>=!-])>(?![=>])', '>='),
 (r'==', '!='), (r'!=', '=='), (r'&&', '||'), (r'\|\|', '&&'),
 (r'\+ 1\b', '+ 0'), (r'- 1\b', '- 0'), (r'\+1\b', '+0'), (r'-1\b', '-0'),
 (r'\btrue\b', 'false'), (r'\bfalse\b', 'true'),
 (r'!(?=[a-zA-Z(])', ''),
 (r'\b([2-9]|[1-9][0-9]{1,3})\b', lambda m: str(int(m.group(1)) + 1)),
 (r'\b0x([0-9a-fA-F]{2,8})\b', lambda m: '0x%x' % (int(m.group(1), 16) ^ 1)),
]

def mutants(path):
    src = open('/repo/' + path).read().split('\n')
    out = []
    infunc = False
    for i, line in enumerate(src):
        s = line.strip()
        if line.startswith('func '):
            infunc = True
        if line.startswith('}'):
            infunc = False
        if not infunc or s.startswith('//') or s.startswith('func ') or 'fmt.Errorf' in s or 'errors.New' in s or 'panic(' in s or s.startswith('"'):
            continue
        code = line.split('//')[0]
        for pat, rep in OPS:
            for m in re.finditer(pat, code):
                # skip inside string literals
                if code[:m.start()].count('"') % 2 == 1 or code[:m.start()].count('`') % 2 == 1:
                    continue
                new = code[:m.start()] + (rep(m) if callable(rep) else rep) + code[m.end():]
                if new != code:
                    out.append((i, new + line[len(code):]))
    return src, out

def run(cmd, cwd, timeout):
    try:
        p = subprocess.run(cmd, cwd=cwd, env=ENV, capture_output=True, text=True, timeout=timeout)
        return p.returncode, p.stdout + p.stderr
    except subprocess.TimeoutExpired:
        return 124, 'timeout'

# the Go build cache grows by ~70 MB per mutant (the mutated package and everything above it are
# recompiled, with their test variants): 1,800 mutants filled 136 GB in the first run. The gate lets
# the workers drain every 120 mutants and empties the cache when it has passed 25 GB.
import threading
_gate = threading.Condition(); _active = 0; _paused = False; _count = 0
def _enter():
    global _active, _count, _paused
    with _gate:
        while _paused: _gate.wait()
        _count += 1
        if _count % 120 == 0:
            _paused = True
            while _active > 0: _gate.wait()
            try:
                sz = int(subprocess.run(['du', '-sm', os.path.expanduser('~/.cache/go-build')], capture_output=True, text=True).stdout.split()[0])
                if sz > 25000:
                    subprocess.run(['go', 'clean', '-cache'], env=ENV)
            except Exception: pass
            _paused = False; _gate.notify_all()
        _active += 1
def _leave():
    global _active
    with _gate:
        _active -= 1; _gate.notify_all()

def one(job):
    _enter()
    try:
        return _one(job)
    finally:
        _leave()

def _one(job):
    path, idx, lineno, newline, src = job
    tag = hashlib.md5(f'{path}:{lineno}:{newline}'.encode()).hexdigest()[:10]
    r, v = f'/tmp/mut-{tag}-r', f'/tmp/mut-{tag}-v'
    res = {'file': path, 'line': lineno + 1, 'old': src[lineno].strip(), 'new': newline.strip()}
    try:
        subprocess.run(['rsync', '-a', '--exclude', '.git', '/repo/', r + '/'], check=True)
        os.makedirs(v + '/evidence'); shutil.copytree('/verif/spec', v + '/spec'); shutil.copy('/verif/known_findings.json', v)
        lines = list(src); lines[lineno] = newline
        open(f'{r}/{path}', 'w').write('\n'.join(lines))
        pkg = os.path.dirname(path)
        rc, out = run(['go', 'build', './' + pkg + '/'], r, 300)
        if rc != 0:
            res['status'] = 'nobuild'; return res
        cmd = ['go', 'test', '-count=1', '-vet=off', '-timeout', '120s']
        if pkg in SKIP:
            cmd += ['-skip', SKIP[pkg]]
        # the packages that depend on the mutated one and have offline tests
        deps = {'boc': ['./boc/', './tlb/', './ton/'], 'tlb': ['./tlb/', './ton/'], 'tl': ['./tl/', './liteclient/'], 'ton': ['./ton/'], 'utils': ['./utils/', './ton/']}.get(pkg, ['./' + pkg + '/'])
        rc, out = run(cmd + deps, r, 400)
        fails = set(re.findall(r'^--- FAIL: (\S+)', out, re.M))
        base = BASE.get(','.join(deps), set())
        if fails - base or (rc != 0 and not fails and 'FAIL' in out and 'build failed' in out):
            res['status'] = 'killed-by-tests'; res['tests'] = sorted(fails - base)[:3]; return res
        if rc == 124:
            res['status'] = 'killed-by-tests'; res['tests'] = ['timeout']; return res
        fired = []
        env = dict(ENV, TONGO_REPO=r, VERIF_DIR=v)
        pr = subprocess.run(['/verif/bin/tongocheck', '-sweep'], env=env, capture_output=True, text=True, timeout=900)
        lines = [l for l in pr.stdout.split('\n') if l.startswith('SWEEP ')]
        if len(lines) != 20:
            fired.append('(ERR)')
        for l in lines:
            parts = l.split(' ', 2)
            if len(parts) == 3 and parts[2].strip():
                fired.append(parts[1] + '[' + parts[2].strip() + ']')
        res['status'] = 'caught' if fired else 'SURVIVED'
        res['fired'] = fired
        return res
    except Exception as e:
        res['status'] = 'error'; res['err'] = str(e)[:200]; return res
    finally:
        shutil.rmtree(r, ignore_errors=True); shutil.rmtree(v, ignore_errors=True)

BASE = {}
def baseline():
    seen = set()
    for pkg in set(os.path.dirname(f) for f in FILES):
        deps = {'boc': ['./boc/', './tlb/', './ton/'], 'tlb': ['./tlb/', './ton/'], 'tl': ['./tl/', './liteclient/'], 'ton': ['./ton/'], 'utils': ['./utils/', './ton/']}.get(pkg, ['./' + pkg + '/'])
        k = ','.join(deps)
        if k in seen:
            continue
        seen.add(k)
        cmd = ['go', 'test', '-count=1', '-vet=off', '-timeout', '120s']
        if pkg in SKIP:
            cmd += ['-skip', SKIP[pkg]]
        rc, out = run(cmd + deps, '/repo', 400)
        BASE[k] = set(re.findall(r'^--- FAIL: (\S+)', out, re.M))

if __name__ == '__main__':
    outp = sys.argv[1]
    files = sys.argv[2:] or list(FILES)
    baseline()
    jobs = []
    for f in files:
        src, ms = mutants(f)
        for k, (ln, nl) in enumerate(ms):
            jobs.append((f, k, ln, nl, src))
    print(len(jobs), 'mutants', file=sys.stderr)
    start = int(os.environ.get('MUT_FROM', '0'))
    jobs = jobs[start:]
    with open(outp, 'a' if start else 'w') as fo, ThreadPoolExecutor(max_workers=int(os.environ.get('MUT_PAR', '7'))) as ex:
        for n, res in enumerate(ex.map(one, jobs)):
            fo.write(json.dumps(res) + '\n'); fo.flush()
            if n % 50 == 0:
                print(n, res['status'], file=sys.stderr)
