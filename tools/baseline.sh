#!/bin/bash
# runs the pinned baseline suite on /repo (guard off: there are no hooks) and compares with BASELINE.json stable_pass
cd /repo
export GOPROXY=off GOSUMDB=off GOTOOLCHAIN=local
out=/tmp/baseline_run.json
( . /w/out/goenv.sh; MF=$(gomodflag); go test $MF -json -vet=off -count=1 -timeout 25m ./... ) > $out 2>/tmp/baseline_run.err
python3 - <<'PY'
import json
stable=set(json.load(open('/root/.vp/BASELINE.json'))['stable_pass'])
res={}
for l in open('/tmp/baseline_run.json'):
    try: e=json.loads(l)
    except: continue
    if e.get('Action') in ('pass','fail') and e.get('Test'):
        res[e['Package']+'::'+e['Test']]=e['Action']
missing=[t for t in sorted(stable) if res.get(t)!='pass']
print("stable tests:",len(stable),"passing now:",len(stable)-len(missing))
for t in missing: print("  NOT PASSING:",t,res.get(t))
PY
