#!/bin/bash
# usage: seedtest.sh <seed dir> [prop ...] : applies the seed patch to /repo, runs the given checks
# (default: all claimed in MANIFEST), reverts. Prints which checks fire.
d="$(realpath "$1")"; shift
cd /verif
props="$@"
[ -z "$props" ] && props=$(python3 -c "import json;print(' '.join(c['property_id'] for c in json.load(open('MANIFEST.json'))['checks']))")
git -C /repo apply "$d/patch.diff" || { echo "$d: patch does not apply"; exit 2; }
fired=""
for p in $props; do
  out=$(./check.sh $p quick 2>&1); rc=$?
  if [ $rc -eq 1 ]; then fired="$fired $p"; echo "$out" | grep -A3 "^VIOLATION" | head -12 | sed "s/^/    [$p] /"; fi
  if [ $rc -ge 2 ]; then fired="$fired $p(ERR$rc)"; echo "$out" | tail -3; fi
done
git -C /repo checkout -- . 
echo "SEED $d fired:${fired:- none}"
