#!/usr/bin/env python3
"""Re-run ALL 20 checks (quick tier, one process per mutant: tongocheck -sweep) on the surviving mutants of tools/mutate.py: the battery only runs
the properties a file is anchored in; a mutant may be caught by a neighbour's rule.
usage: tools/mutate_recheck.py <mutants.jsonl> <out.jsonl> [checker-binary]   (scratch under /tmp/mutr-*)"""
import os, sys, json, subprocess, shutil, threading, queue
BIN = sys.argv[3] if len(sys.argv) > 3 else '/verif/bin/tongocheck'
PAR = int(os.environ.get('MUT_PAR', '6'))
ENV = dict(os.environ, GOFLAGS='-mod=mod', GOPROXY='off', GOSUMDB='off', GOTOOLCHAIN='local', GOWORK='off')
PROPS = ['C%02d' % i for i in range(1, 21)]
done = set()
if os.path.exists(sys.argv[2]):
    for l in open(sys.argv[2]):
        r = json.loads(l); done.add((r['file'], r['line'], r['new']))
todo = []
for l in open(sys.argv[1]):
    r = json.loads(l)
    if r['status'] == 'SURVIVED' and (r['file'], r['line'], r['new']) not in done:
        todo.append(r)
print(len(todo), 'survivors to re-check', flush=True)
q = queue.Queue()
for r in todo: q.put(r)
lock = threading.Lock()
out = open(sys.argv[2], 'a')
def worker(w):
    root = '/tmp/mutr-%d' % w
    shutil.rmtree(root, ignore_errors=True)
    os.makedirs(root + '/v/evidence')
    subprocess.run(['rsync', '-a', '--exclude', '.git', '/repo/', root + '/repo/'], check=True)
    shutil.copy('/verif/known_findings.json', root + '/v/')
    shutil.copytree('/verif/spec', root + '/v/spec')
    env = dict(ENV, TONGO_REPO=root + '/repo', VERIF_DIR=root + '/v')
    while True:
        try: r = q.get_nowait()
        except queue.Empty: break
        src = open('/repo/' + r['file']).read().split('\n')
        ln = src[r['line'] - 1]
        assert ln.strip() == r['old'], r
        src[r['line'] - 1] = ln[:len(ln) - len(ln.lstrip())] + r['new']
        open(root + '/repo/' + r['file'], 'w').write('\n'.join(src))
        fired = []
        pr = subprocess.run([BIN, '-sweep', '-tier', 'quick'], env=env, cwd='/verif', capture_output=True, text=True)
        lines = [l for l in pr.stdout.split('\n') if l.startswith('SWEEP ')]
        if len(lines) != 20:
            fired.append('ERR:' + (pr.stderr.strip().split('\n') or ['?'])[-1][:120])
        for l in lines:
            parts = l.split(' ', 2)
            if len(parts) == 3 and parts[2].strip():
                fired.append(parts[1] + ':' + parts[2].strip())
        shutil.copy('/repo/' + r['file'], root + '/repo/' + r['file'])
        r['fired_all'] = fired
        with lock:
            out.write(json.dumps(r) + '\n'); out.flush()
    shutil.rmtree(root, ignore_errors=True)
ts = [threading.Thread(target=worker, args=(i,)) for i in range(PAR)]
for t in ts: t.start()
for t in ts: t.join()
print('done')
