#!/bin/bash
# usage: tools/intake.sh <prop> <variant> <srcdir> : confirm a seed produced by a sub-agent and, if
# confirmed, store it as /verif/seeded/<prop>-<variant>/ ; then run it through all checks on a scratch copy.
p=$1; v=$2; d=$3
r=$(/verif/tools/confirm_seed.sh "$d" 2>&1 | tail -1)
echo "$r"
case "$r" in *CONFIRMED*) ;; *) exit 1;; esac
dst=/verif/seeded/$p-$v; mkdir -p $dst
cp $d/patch.diff $d/demo_test.go $d/confirm.txt $dst/
python3 - "$d/meta.json" "$dst/meta.json" "$r" <<'PY'
import json,sys
m=json.load(open(sys.argv[1]))
import os
m['author']="independent sub-agent given only the property text and a scratch worktree (round %s)" % os.environ.get("SEED_ROUND","5")
m['confirmed_by_me']="tools/confirm_seed.sh in a scratch worktree of /repo: demo passes on the clean tree, fails with the patch; touched packages build; existing tests of touched packages give the identical pass/fail set"
m['confirm_verdict']=sys.argv[3].split(' ',1)[1] if ' ' in sys.argv[3] else sys.argv[3]
json.dump(m,open(sys.argv[2],'w'),indent=1)
PY
/verif/tools/seedmatrix_fast.sh $p-$v
