#!/bin/bash
# usage: tools/seedcmp.sh <binary> <out> : run the seed matrix with a candidate binary and list the seeds whose
# verdict got worse than in SEED_MATRIX.txt (no longer caught, or no longer caught by their own property)
bin=$1; out=$2
cp $bin /tmp/seedcmp_bin_$$
TONGOCHECK_BIN=/tmp/seedcmp_bin_$$ /verif/tools/seedmatrix_fast.sh 2>/dev/null | grep "^SEED" > $out
rm -f /tmp/seedcmp_bin_$$
python3 - $out <<'P'
import sys,re
def load(p):
    d={}
    for l in open(p):
        m=re.match(r'SEED (\S+) fired:(.*)',l)
        if m: d[m.group(1)]=m.group(2).strip()
    return d
old=load('/verif/SEED_MATRIX.txt'); new=load(sys.argv[1])
reg=0
for k in sorted(old):
    o,n=old[k],new.get(k,'(missing)')
    own=k[:3]
    oc = o!='none'; nc = n not in ('none','(missing)') and 'ERR' not in n
    oo = (own+'[') in o; no=(own+'[') in n
    if (oc and not nc) or (oo and not no):
        reg+=1; print('REGRESSION',k,'was:',o,'| now:',n)
    elif (nc and not oc) or (no and not oo):
        print('IMPROVED',k,'was:',o,'| now:',n)
print('seeds',len(old),'caught now',sum(1 for k in new if new[k] not in('none',) and 'ERR' not in new[k]),'regressions',reg)
P
