#!/usr/bin/env python3
"""Splices DESIGN_part2.md into DESIGN.md (before Appendix A), filling the seed table from a
seedmatrix output file and the per-property rule counts from the evidence files."""
import json, re, sys, os
matrix = sys.argv[1] if len(sys.argv) > 1 else '/tmp/seedmatrix_full.out'
d = open('/verif/DESIGN.md').read()
p2 = open('/verif/DESIGN_part2.md').read()
# seed table
rows = []
for l in open(matrix):
    m = re.match(r'SEED (\S+) fired:(.*)', l.strip())
    if not m:
        continue
    sid, fired = m.group(1), m.group(2).strip()
    meta = json.load(open(f'/verif/seeded/{sid}/meta.json'))
    summ = meta.get('summary', '').replace('|', '/').replace('\n', ' ')
    if len(summ) > 150:
        summ = summ[:147] + '…'
    rows.append((sid, summ, fired if fired != 'none' else '**none**'))
rows.sort()
tbl = ['', '| seed | change | checks that fire [rules] |', '|------|--------|--------------------------|']
own = 0
for sid, summ, fired in rows:
    tbl.append(f'| {sid} | {summ} | {fired} |')
    if sid[:3] in fired:
        own += 1
caught = sum(1 for r in rows if r[2] != '**none**')
tbl.append('')
tbl.append(f'{len(rows)} live seeds: {caught} make at least one check fire, {own} make the check of their own property fire, {len(rows)-caught} fire nothing (listed below).')
p2 = p2.replace('SEEDTABLE', '\n'.join(tbl))
# rule counts
cnt = ['', '| id | obligations | rules (instances) |', '|----|-------------|-------------------|']
for i in range(1, 21):
    pid = f'C{i:02d}'
    ev = json.load(open(f'/verif/evidence/{pid}.json'))
    rules = ev['coverage']['rules']
    cnt.append(f"| {pid} | {ev['coverage']['obligations']} | " + ', '.join(f"{k} ×{v['instances']}" for k, v in sorted(rules.items())) + ' |')
p2 = p2.replace('RULECOUNTS', '\n'.join(cnt))
marker = '## Appendix A'
start = d.find('## 8. Part II')
if start >= 0:
    end = d.find(marker)
    d = d[:start] + d[end:]
i = d.find(marker)
d = d[:i] + p2.rstrip() + '\n\n---------------------------------------------------------------------------\n\n' + d[i:]
note = ('> **How to read this document.** Sections 1–7 are the design written before any code existed '
        '(round 0). Section 8 ("Part II — as built") records what was built, where it departs from the design, '
        'the genuine defects found and repaired, the false alarms of my own machinery and how they were corrected, '
        'and which checks catch which independently seeded changes. Where the two disagree, section 8 is what the code does.\n\n')
if 'How to read this document' not in d:
    j = d.find('\n', d.find('# DESIGN')) + 1
    d = d[:j] + '\n' + note + d[j:]
open('/verif/DESIGN.md', 'w').write(d)
print('DESIGN.md written:', len(d.splitlines()), 'lines;', len(rows), 'seeds,', caught, 'caught,', own, 'by own property')
